//! Batch runner shared by all properties: seeded generation, parallel execution of independent
//! simulated runs, panic/hang capture, minimisation, replay files (verified in a fresh process
//! before anything is reported), known-finding matching, evidence.

use crate::rng::{self, Rng};
use serde::de::DeserializeOwned;
use serde::Serialize;
use serde_json::{json, Value};
use std::collections::{BTreeMap, BTreeSet};
use std::panic::{catch_unwind, AssertUnwindSafe};
use std::sync::atomic::{AtomicBool, AtomicU64, Ordering};
use std::sync::{Arc, Mutex};
use std::time::{Duration, Instant};

#[derive(Clone, Copy, Debug, PartialEq, Eq)]
pub enum Tier {
    Quick,
    Thorough,
}

impl Tier {
    pub fn name(&self) -> &'static str {
        match self {
            Tier::Quick => "quick",
            Tier::Thorough => "thorough",
        }
    }
    pub fn pick<T>(&self, q: T, t: T) -> T {
        match self {
            Tier::Quick => q,
            Tier::Thorough => t,
        }
    }
}

#[derive(Clone, Debug, Serialize, serde::Deserialize)]
pub struct Violation {
    /// cause class, e.g. "panic", "wrap", "non-contiguous"
    pub class: String,
    /// finer identity inside the class (panic location, analyzer kind, ...) used for known-finding matching
    pub key: String,
    pub detail: String,
}

impl Violation {
    pub fn new(class: &str, key: impl Into<String>, detail: impl Into<String>) -> Self {
        Violation { class: class.to_string(), key: key.into(), detail: detail.into() }
    }
}

/// Per-run measurements, merged into the batch evidence in run-index order.
#[derive(Clone, Debug, Default)]
pub struct RunStats {
    pub faults: BTreeMap<String, u64>,
    pub probes: BTreeMap<String, u64>,
    pub packets: u64,
    pub sim_ns: u64,
    pub evals: u64,
    pub log_hash: u64,
    pub log_events: u64,
    pub nontrivial: bool,
    pub interleaving: Option<u64>,
    /// per-execution schedule hashes inside this run (poolsim: one per scheduled execution)
    pub schedules_seen: Vec<u64>,
}

impl RunStats {
    pub fn fault(&mut self, k: &str) {
        *self.faults.entry(k.to_string()).or_insert(0) += 1;
    }
    pub fn fault_n(&mut self, k: &str, n: u64) {
        if n > 0 {
            *self.faults.entry(k.to_string()).or_insert(0) += n;
        }
    }
    pub fn probe(&mut self, k: &str) {
        *self.probes.entry(k.to_string()).or_insert(0) += 1;
    }
    pub fn probe_n(&mut self, k: &str, n: u64) {
        if n > 0 {
            *self.probes.entry(k.to_string()).or_insert(0) += n;
        }
    }
    /// fold an event into the run's event-log hash (never draws from a PRNG, never reads a clock)
    pub fn ev(&mut self, s: &str) {
        self.log_hash = rng::hash_bytes(self.log_hash, s.as_bytes());
        self.log_events += 1;
    }
    pub fn ev_bytes(&mut self, b: &[u8]) {
        self.log_hash = rng::hash_bytes(self.log_hash, b);
        self.log_events += 1;
    }
    pub fn ev_u64(&mut self, x: u64) {
        self.log_hash = rng::mix64(self.log_hash ^ x);
        self.log_events += 1;
    }
}

pub trait Prop: Sync {
    type Scn: Serialize + DeserializeOwned + Clone + Send + Sync + 'static;
    const ID: &'static str;
    /// engine label for evidence
    const ENGINE: &'static str;
    fn rule() -> &'static str;
    /// number of seeded runs for the tier
    fn runs(tier: Tier) -> u64;
    fn generate(rng: &mut Rng, tier: Tier, idx: u64) -> Self::Scn;
    /// systematic (enumerated) scenarios run in addition to the seeded ones
    fn systematic(_tier: Tier) -> Vec<Self::Scn> {
        vec![]
    }
    fn run(scn: &Self::Scn, st: &mut RunStats) -> Result<(), Violation>;
    /// candidate simpler scenarios, most aggressive first
    fn shrink(_scn: &Self::Scn) -> Vec<Self::Scn> {
        vec![]
    }
    /// compact rendering for evidence samples
    fn sample(scn: &Self::Scn) -> Value {
        truncate_json(serde_json::to_value(scn).unwrap_or(Value::Null), 0)
    }
    /// is a panic inside the code under test a violation of *this* property?
    fn panics_are_violations() -> bool {
        false
    }
    /// wall-clock limit of one run before it is reported as a hang (C01) / over-budget
    fn run_wall_limit_s() -> u64 {
        20
    }
    /// may runs of this property have logging switched on? (no for measurements of allocation: formatting
    /// log events allocates, and how much depends on what the thread formatted before)
    fn logging_allowed() -> bool {
        true
    }
    /// violation classes whose verdict rests on measured CPU time: a finding of such a class that does not
    /// reproduce from its replay file in a fresh process is machine noise and is discarded (with a note), whereas
    /// for every other class a replay that does not reproduce is an error of the harness
    fn timing_classes() -> &'static [&'static str] {
        &[]
    }
    fn extra_evidence(_tier: Tier) -> Value {
        json!({})
    }
}

pub fn truncate_json(v: Value, depth: usize) -> Value {
    match v {
        Value::String(s) => {
            if s.len() > 96 {
                Value::String(format!("{}…(+{} chars)", &s[..s.char_indices().nth(96).map(|x| x.0).unwrap_or(s.len())], s.len() - 96))
            } else {
                Value::String(s)
            }
        }
        Value::Array(a) => {
            let n = a.len();
            let keep = if depth == 0 { 24 } else { 12 };
            let mut out: Vec<Value> = a.into_iter().take(keep).map(|x| truncate_json(x, depth + 1)).collect();
            if n > keep {
                out.push(Value::String(format!("…(+{} more)", n - keep)));
            }
            Value::Array(out)
        }
        Value::Object(m) => Value::Object(m.into_iter().map(|(k, x)| (k, truncate_json(x, depth + 1))).collect()),
        x => x,
    }
}

// ---------------------------------------------------------------------------------------------
// panic capture

thread_local! {
    static LAST_PANIC: std::cell::RefCell<Option<(String, String)>> = const { std::cell::RefCell::new(None) };
    static QUIET: std::cell::Cell<bool> = const { std::cell::Cell::new(false) };
}

pub fn install_panic_hook() {
    let default = std::panic::take_hook();
    std::panic::set_hook(Box::new(move |info| {
        let loc = info.location().map(|l| format!("{}:{}", l.file(), l.line())).unwrap_or_else(|| "?".into());
        let msg = if let Some(s) = info.payload().downcast_ref::<&str>() {
            s.to_string()
        } else if let Some(s) = info.payload().downcast_ref::<String>() {
            s.clone()
        } else {
            "<non-string panic>".to_string()
        };
        // keep the first panic since the last take: schedulers re-panic with their own message
        LAST_PANIC.with(|p| {
            let mut p = p.borrow_mut();
            if p.is_none() {
                *p = Some((loc, msg));
            }
        });
        if !QUIET.with(|q| q.get()) {
            default(info);
        }
    }));
}

pub fn quiet_panics(on: bool) {
    QUIET.with(|q| q.set(on));
}

pub fn take_last_panic() -> Option<(String, String)> {
    LAST_PANIC.with(|p| p.borrow_mut().take())
}

/// normalise a panic location to something stable across machines: strip registry/repo prefixes
pub fn norm_loc(loc: &str) -> String {
    if let Some(i) = loc.find("/repo/") {
        return loc[i + 6..].to_string();
    }
    if let Some(i) = loc.find("/registry/src/") {
        let rest = &loc[i + 14..];
        if let Some(j) = rest.find('/') {
            return rest[j + 1..].to_string();
        }
    }
    loc.to_string()
}

pub fn is_harness_loc(loc: &str) -> bool {
    loc.contains("vsim/src") || loc.starts_with("src/") || loc.contains("/verif/sim/")
}

pub enum RunOutcome {
    Ok,
    Violation(Violation),
    /// panic inside the code under test while checking a property that does not own panics
    SutPanic(String),
    HarnessError(String),
}

pub fn run_caught<P: Prop>(scn: &P::Scn, st: &mut RunStats) -> RunOutcome {
    if !P::logging_allowed() {
        crate::logsim::set(false);
    }
    crate::sut::set_db_variant(0);
    quiet_panics(true);
    let _ = take_last_panic();
    let r = catch_unwind(AssertUnwindSafe(|| P::run(scn, st)));
    quiet_panics(false);
    huginn_net_verif_rt::clock::disarm();
    match r {
        Ok(Ok(())) => RunOutcome::Ok,
        Ok(Err(v)) => RunOutcome::Violation(v),
        Err(_) => {
            let (loc, msg) = take_last_panic().unwrap_or(("?".into(), "?".into()));
            if is_harness_loc(&loc) {
                RunOutcome::HarnessError(format!("harness panic at {}: {}", loc, msg))
            } else if P::panics_are_violations() {
                if loc.contains("shuttle") {
                    // the scheduler's own verdicts: deadlock (every thread blocked) or step limit
                    let class = if msg.contains("deadlock") { "deadlock" } else if msg.contains("exceeded max_steps") || msg.contains("max_steps") { "step-limit" } else { "scheduler-panic" };
                    RunOutcome::Violation(Violation::new(class, "shuttle", format!("{}: {}", class, msg.chars().take(300).collect::<String>())))
                } else {
                    RunOutcome::Violation(Violation::new("panic", norm_loc(&loc), format!("panic at {}: {}", norm_loc(&loc), msg)))
                }
            } else {
                RunOutcome::SutPanic(format!("{}: {}", norm_loc(&loc), msg))
            }
        }
    }
}

// ---------------------------------------------------------------------------------------------
// known findings

#[derive(Clone, Debug)]
pub struct Known {
    pub property: String,
    pub class: String,
    pub key: String,
    pub what: String,
    /// replay file of the finding, relative to the verif root
    pub replay: String,
}

pub fn verif_root() -> String {
    std::env::var("VERIF_ROOT").unwrap_or_else(|_| "/verif".to_string())
}

pub fn load_known() -> Vec<Known> {
    let p = format!("{}/known_findings.json", verif_root());
    let Ok(s) = std::fs::read_to_string(&p) else { return vec![] };
    let Ok(v) = serde_json::from_str::<Value>(&s) else {
        eprintln!("harness: cannot parse {}", p);
        std::process::exit(2);
    };
    let mut out = vec![];
    for f in v.get("findings").and_then(|x| x.as_array()).cloned().unwrap_or_default() {
        if f.get("status").and_then(|x| x.as_str()) != Some("open") {
            continue;
        }
        out.push(Known {
            property: f.get("property").and_then(|x| x.as_str()).unwrap_or("").to_string(),
            class: f.get("class").and_then(|x| x.as_str()).unwrap_or("").to_string(),
            key: f.get("key").and_then(|x| x.as_str()).unwrap_or("*").to_string(),
            what: f.get("what").and_then(|x| x.as_str()).unwrap_or("").to_string(),
            replay: f.get("replay").and_then(|x| x.as_str()).unwrap_or("").to_string(),
        });
    }
    out
}

fn glob_match(pat: &str, s: &str) -> bool {
    if pat == "*" {
        return true;
    }
    if let Some(p) = pat.strip_suffix('*') {
        return s.starts_with(p);
    }
    pat == s
}

pub fn match_known<'a>(known: &'a [Known], prop: &str, v: &Violation) -> Option<&'a Known> {
    known.iter().find(|k| k.property == prop && k.class == v.class && glob_match(&k.key, &v.key))
}

// ---------------------------------------------------------------------------------------------

pub struct Opts {
    pub tier: Tier,
    pub seed: u64,
    pub jobs: usize,
    pub evidence: Option<String>,
    pub out_dir: String,
    pub runs_override: Option<u64>,
    pub hashes_only: bool,
    pub budget_s: Option<u64>,
}

#[derive(Serialize, serde::Deserialize)]
pub struct ReplayFile {
    pub property: String,
    pub engine: String,
    pub class: String,
    pub key: String,
    pub detail: String,
    pub seed: u64,
    pub run_index: i64,
    pub minimised: bool,
    pub scenario: Value,
    /// scenarios that must be run first, in the same process, for the violation to appear: state in the code
    /// under test that outlives an analyzer instance (a process-wide static) only shows as a history of runs
    #[serde(default, skip_serializing_if = "Vec::is_empty")]
    pub prelude: Vec<Value>,
}

fn minimise<P: Prop>(scn: &P::Scn, v: &Violation, budget: Duration) -> (P::Scn, Violation, u64) {
    let start = Instant::now();
    let mut cur = scn.clone();
    let mut curv = v.clone();
    let mut tried = 0u64;
    let mut progress = true;
    while progress && start.elapsed() < budget {
        progress = false;
        for cand in P::shrink(&cur) {
            if start.elapsed() >= budget {
                break;
            }
            tried += 1;
            let mut st = RunStats::default();
            if let RunOutcome::Violation(v2) = run_caught::<P>(&cand, &mut st) {
                if v2.class == curv.class && v2.key == curv.key {
                    cur = cand;
                    curv = v2;
                    progress = true;
                    break;
                }
            }
        }
    }
    (cur, curv, tried)
}

struct Found<S> {
    idx: i64,
    scn: S,
    v: Violation,
    /// the scenario the same worker thread ran just before this one
    prev: Option<S>,
}

/// kernel thread id of the calling thread (Linux), 0 if unknown
fn own_tid() -> u64 {
    std::fs::read_link("/proc/thread-self").ok().and_then(|p| p.file_name().and_then(|n| n.to_str().and_then(|s| s.parse().ok()))).unwrap_or(0)
}

/// CPU time (user + system, in clock ticks of 10 ms) consumed so far by thread `tid` of this process
fn cpu_ticks(tid: u64) -> Option<u64> {
    let s = std::fs::read_to_string(format!("/proc/self/task/{}/stat", tid)).ok()?;
    let rest = &s[s.rfind(')')? + 2..];
    let f: Vec<&str> = rest.split_whitespace().collect();
    // after the command name: state(0) ppid(1) ... utime is field 14 overall = index 11 here, stime index 12
    Some(f.get(11)?.parse::<u64>().ok()? + f.get(12)?.parse::<u64>().ok()?)
}

pub fn run_batch<P: Prop>(o: &Opts) -> i32 {
    let t0 = Instant::now();
    let n_seeded = o.runs_override.unwrap_or_else(|| P::runs(o.tier));
    let systematic: Vec<P::Scn> = if o.hashes_only { vec![] } else { P::systematic(o.tier) };
    let n_sys = systematic.len() as u64;
    let total = n_seeded + n_sys;
    println!("[{}] engine={} tier={} seed={} runs={} (seeded {} + systematic {}) jobs={}", P::ID, P::ENGINE, o.tier.name(), o.seed, total, n_seeded, n_sys, o.jobs);

    // which runs are in flight, on disk: if the process dies (stack overflow, allocation failure, abort in a
    // dependency) the front end reads this and replays those runs one by one in processes of their own
    std::fs::create_dir_all(&o.out_dir).ok();
    let inflight_path = format!("{}/inflight.{}.{}", o.out_dir, P::ID, P::ENGINE);
    let inflight: Option<Arc<std::fs::File>> = if o.hashes_only { None } else { std::fs::OpenOptions::new().create(true).write(true).truncate(true).open(&inflight_path).ok().map(Arc::new) };
    if let Some(f) = &inflight {
        let _ = f.set_len(8 * o.jobs as u64);
    }
    let next = Arc::new(AtomicU64::new(0));
    let stop = Arc::new(AtomicBool::new(false));
    let systematic = Arc::new(systematic);
    // per worker: (current run index + 1, start millis since t0, kernel thread id, cpu ticks at run start)
    let cur: Arc<Vec<(AtomicU64, AtomicU64, AtomicU64, AtomicU64)>> = Arc::new((0..o.jobs).map(|_| (AtomicU64::new(0), AtomicU64::new(0), AtomicU64::new(0), AtomicU64::new(0))).collect());
    let results: Arc<Mutex<Vec<(u64, RunStats, Option<Found<P::Scn>>, Option<String>, Option<String>)>>> = Arc::new(Mutex::new(Vec::new()));
    let samples: Arc<Mutex<BTreeMap<u64, Value>>> = Arc::new(Mutex::new(BTreeMap::new()));
    let tier = o.tier;
    let seed = o.seed;
    let deadline = o.budget_s.map(|s| t0 + Duration::from_secs(s));

    let mut handles = vec![];
    for w in 0..o.jobs {
        let next = next.clone();
        let stop = stop.clone();
        let cur = cur.clone();
        let results = results.clone();
        let samples = samples.clone();
        let systematic = systematic.clone();
        let inflight = inflight.clone();
        let h = std::thread::Builder::new()
            .name(format!("sim-{}", w))
            .stack_size(64 << 20)
            .spawn(move || {
                let mut local = Vec::new();
                let mut prev_scn: Option<P::Scn> = None;
                let tid = own_tid();
                cur[w].2.store(tid, Ordering::Relaxed);
                loop {
                    if stop.load(Ordering::Relaxed) {
                        break;
                    }
                    if let Some(d) = deadline {
                        if Instant::now() > d {
                            break;
                        }
                    }
                    let i = next.fetch_add(1, Ordering::Relaxed);
                    if i >= total {
                        break;
                    }
                    cur[w].1.store(t0.elapsed().as_millis() as u64, Ordering::Relaxed);
                    cur[w].3.store(cpu_ticks(tid).unwrap_or(0), Ordering::Relaxed);
                    cur[w].0.store(i + 1, Ordering::Relaxed);
                    let scn = if i < n_sys {
                        systematic[i as usize].clone()
                    } else {
                        let mut r = Rng::new(rng::run_seed(seed, P::ID, i - n_sys));
                        P::generate(&mut r, tier, i - n_sys)
                    };
                    if i < n_sys + 3 || (i % (total / 4).max(1) == 0) {
                        if let Ok(mut s) = samples.lock() {
                            if s.len() < 6 {
                                s.insert(i, P::sample(&scn));
                            }
                        }
                    }
                    if std::env::var("VSIM_DESCRIBE").is_ok() {
                        // diagnosis aid: what was run i?
                        let v = serde_json::to_string(&P::sample(&scn)).unwrap_or_default();
                        eprintln!("D {} {}", i, v.chars().take(400).collect::<String>());
                    }
                    let mut st = RunStats::default();
                    // configuration dimension: one run in four has logging switched on (log arguments are evaluated)
                    crate::logsim::set(P::logging_allowed() && i % 4 == 1);
                    let _ = crate::logsim::take_events();
                    if let Some(f) = &inflight {
                        use std::os::unix::fs::FileExt;
                        let _ = f.write_at(&(i + 1).to_le_bytes(), 8 * w as u64);
                    }
                    let out = run_caught::<P>(&scn, &mut st);
                    if let Some(f) = &inflight {
                        use std::os::unix::fs::FileExt;
                        let _ = f.write_at(&0u64.to_le_bytes(), 8 * w as u64);
                    }
                    if crate::logsim::is_on() {
                        st.fault_n("logging_enabled_log_events_formatted", crate::logsim::take_events());
                    }
                    crate::logsim::set(P::logging_allowed());
                    cur[w].0.store(0, Ordering::Relaxed);
                    let (found, sutp, herr) = match out {
                        RunOutcome::Ok => (None, None, None),
                        RunOutcome::Violation(v) => (Some(Found { idx: i as i64, scn: scn.clone(), v, prev: prev_scn.clone() }), None, None),
                        RunOutcome::SutPanic(s) => (None, Some(s), None),
                        RunOutcome::HarnessError(s) => (None, None, Some(s)),
                    };
                    prev_scn = Some(scn);
                    local.push((i, st, found, sutp, herr));
                    if local.len() >= 64 {
                        results.lock().unwrap().append(&mut local);
                    }
                }
                results.lock().unwrap().append(&mut local);
            })
            .expect("spawn sim worker");
        handles.push(h);
    }

    // watchdog: a run that exceeds the wall limit is a hang
    // (thorough scenarios of the scheduler engine run ten times the executions of quick ones: fifteen times the limit.
    // A loop without scheduling points inside a worker is out of the step limit's reach, so this watchdog stays the
    // only hang verdict there, and the quick tier keeps it short)
    let limit_ms = P::run_wall_limit_s() * 1000 * if o.tier == Tier::Thorough && P::ENGINE == "poolsim" { 15 } else { 1 };
    let mut hung: Option<u64> = None;
    loop {
        let done = handles.iter().all(|h| h.is_finished());
        if done {
            break;
        }
        let now = t0.elapsed().as_millis() as u64;
        for w in 0..o.jobs {
            let i1 = cur[w].0.load(Ordering::Relaxed);
            let st = cur[w].1.load(Ordering::Relaxed);
            if i1 == 0 || now.saturating_sub(st) <= limit_ms {
                continue;
            }
            // A run is hung when it has *consumed* more CPU time than the limit (a loop that does not
            // terminate), not merely when the wall clock moved on while the machine was busy elsewhere;
            // a run that is blocked without consuming anything is hung after 20x the limit.
            let tid = cur[w].2.load(Ordering::Relaxed);
            let used_ms = cpu_ticks(tid).map(|t| t.saturating_sub(cur[w].3.load(Ordering::Relaxed)) * 10);
            let busy_too_long = used_ms.map(|u| u > limit_ms).unwrap_or(true);
            let blocked_too_long = now.saturating_sub(st) > limit_ms * 20;
            if (busy_too_long || blocked_too_long) && cur[w].0.load(Ordering::Relaxed) == i1 {
                hung = Some(i1 - 1);
            }
        }
        if hung.is_some() {
            stop.store(true, Ordering::Relaxed);
            break;
        }
        std::thread::sleep(Duration::from_millis(50));
    }
    if hung.is_none() {
        for h in handles {
            let _ = h.join();
        }
    }

    let mut res = std::mem::take(&mut *results.lock().unwrap());
    res.sort_by_key(|r| r.0);

    // ---- merge in run-index order
    let mut agg = RunStats::default();
    let mut distinct: BTreeSet<u64> = BTreeSet::new();
    let mut distinct_nontrivial: BTreeSet<u64> = BTreeSet::new();
    let mut interleavings: BTreeSet<u64> = BTreeSet::new();
    let mut batch_hash = 0u64;
    let mut founds: Vec<Found<P::Scn>> = vec![];
    let mut sut_panics: BTreeMap<String, u64> = BTreeMap::new();
    let mut harness_errs: Vec<String> = vec![];
    let executed = res.len() as u64;
    for (i, st, found, sutp, herr) in res {
        batch_hash = rng::mix64(batch_hash ^ st.log_hash ^ i.wrapping_mul(0x9E37));
        if o.hashes_only {
            println!("H {} {:016x}", i, st.log_hash);
        }
        distinct.insert(st.log_hash);
        if st.nontrivial {
            distinct_nontrivial.insert(st.log_hash);
        }
        if let Some(h) = st.interleaving {
            interleavings.insert(h);
        }
        for h in &st.schedules_seen {
            interleavings.insert(*h);
        }
        for (k, v) in &st.faults {
            *agg.faults.entry(k.clone()).or_insert(0) += v;
        }
        for (k, v) in &st.probes {
            *agg.probes.entry(k.clone()).or_insert(0) += v;
        }
        agg.packets += st.packets;
        agg.sim_ns += st.sim_ns;
        agg.evals += st.evals.max(1);
        if let Some(f) = found {
            founds.push(f);
        }
        if let Some(s) = sutp {
            *sut_panics.entry(s).or_insert(0) += 1;
        }
        if let Some(h) = herr {
            harness_errs.push(h);
        }
    }
    if o.hashes_only {
        println!("BATCH {:016x} runs={}", batch_hash, executed);
        return 0;
    }

    std::fs::create_dir_all(&o.out_dir).ok();
    let known = load_known();
    let mut exit = 0;
    let mut n_viol = 0u64;
    let mut known_hit: BTreeMap<String, u64> = BTreeMap::new();
    let mut viol_summ: Vec<Value> = vec![];
    let mut discarded_timing = 0u64;

    if let Some(i) = hung {
        // regenerate the scenario of the hung run (generation is a pure function of the seed)
        let scn = if i < n_sys {
            systematic[i as usize].clone()
        } else {
            let mut r = Rng::new(rng::run_seed(seed, P::ID, i - n_sys));
            P::generate(&mut r, tier, i - n_sys)
        };
        let v = Violation::new("hang", "wall-limit", format!("run {} did not finish within {} s", i, P::run_wall_limit_s()));
        founds.insert(0, Found { idx: i as i64, scn, v, prev: None });
    }

    // group by (class,key): minimise and report the first of each group, count the rest
    let mut groups: BTreeMap<(String, String), Vec<Found<P::Scn>>> = BTreeMap::new();
    for f in founds {
        groups.entry((f.v.class.clone(), f.v.key.clone())).or_default().push(f);
    }
    for ((class, key), fs) in groups {
        let count = fs.len() as u64;
        let f = &fs[0];
        if let Some(k) = match_known(&known, P::ID, &f.v) {
            let _ = (&class, &key);
            *known_hit.entry(k.what.clone()).or_insert(0) += count;
            continue;
        }
        n_viol += count;
        let (scn, v, tried) = if class == "hang" { (f.scn.clone(), f.v.clone(), 0) } else { minimise::<P>(&f.scn, &f.v, Duration::from_secs(o.tier.pick(4, 30))) };
        let path = format!("{}/{}-{}-{:016x}.json", o.out_dir, P::ID, sanitize(&format!("{}-{}", class, key)), rng::run_seed(seed, P::ID, f.idx as u64));
        let rf = ReplayFile {
            property: P::ID.to_string(),
            engine: P::ENGINE.to_string(),
            class: v.class.clone(),
            key: v.key.clone(),
            detail: v.detail.clone(),
            seed,
            run_index: f.idx,
            minimised: tried > 0,
            scenario: serde_json::to_value(&scn).unwrap_or(Value::Null),
            prelude: vec![],
        };
        if let Err(e) = std::fs::write(&path, serde_json::to_string_pretty(&rf).unwrap_or_default()) {
            eprintln!("harness: cannot write replay file {}: {}", path, e);
            return 2;
        }
        // the replay must reproduce in a fresh process before the violation is believed
        let mut ok = verify_replay_fresh(&path, &v);
        let (mut v, mut key) = (v, key);
        if !ok {
            // does it need a history? re-try with the scenario the same worker ran just before it (of any
            // occurrence of the group): state that outlives an analyzer instance shows only across runs
            for f2 in fs.iter().take(8) {
                let Some(prev) = &f2.prev else { continue };
                let v2 = Violation { class: f2.v.class.clone(), key: f2.v.key.clone(), detail: format!("{}\n  (appears only when another scenario has run before it in the same process: state in the code under test outlives the analyzer instance)", f2.v.detail) };
                let rf2 = ReplayFile { property: P::ID.to_string(), engine: P::ENGINE.to_string(), class: v2.class.clone(), key: v2.key.clone(), detail: v2.detail.clone(), seed, run_index: f2.idx, minimised: false, scenario: serde_json::to_value(&f2.scn).unwrap_or(Value::Null), prelude: vec![serde_json::to_value(prev).unwrap_or(Value::Null)] };
                if std::fs::write(&path, serde_json::to_string_pretty(&rf2).unwrap_or_default()).is_ok() && verify_replay_fresh(&path, &v2) {
                    ok = true;
                    v = v2;
                    key = format!("{} [needs a preceding run]", key);
                    break;
                }
            }
        }
        if !ok && P::timing_classes().contains(&v.class.as_str()) {
            // a verdict on measured time: two more attempts, then it is noise of this machine, not a finding
            ok = verify_replay_fresh(&path, &v) || verify_replay_fresh(&path, &v);
            if !ok {
                println!("  note: {} occurrences of the timing verdict {}:{} did not reproduce in three fresh processes - discarded as machine noise", count, v.class, v.key);
                discarded_timing += count;
                n_viol -= count;
                let _ = std::fs::remove_file(&path);
                continue;
            }
        }
        if !ok {
            eprintln!("harness: replay of {} did not reproduce {}:{} in a fresh process - reporting as harness error, not as a violation", path, v.class, v.key);
            harness_errs.push(format!("unreproducible {}:{}", v.class, v.key));
            continue;
        }
        println!("  {} occurrences of {}:{} (first at run {}, minimised with {} candidate runs): {}", count, class, key, f.idx, tried, v.detail);
        println!("VIOLATION property={} replay={}", P::ID, path);
        viol_summ.push(json!({"class": class, "key": key, "count": count, "replay": path, "detail": v.detail}));
        exit = 1;
    }
    // every listed open finding of this property is exercised on every run, whatever the seed:
    // its committed replay file is executed and must still fail the same way
    let mut stale: Vec<String> = vec![];
    for k in known.iter().filter(|k| k.property == P::ID && !k.replay.is_empty()) {
        let path = format!("{}/{}", verif_root(), k.replay);
        let Ok(txt) = std::fs::read_to_string(&path) else { continue };
        let Ok(rf) = serde_json::from_str::<ReplayFile>(&txt) else { continue };
        if rf.engine != P::ENGINE {
            continue;
        }
        let Ok(scn) = serde_json::from_value::<P::Scn>(rf.scenario.clone()) else { continue };
        let mut st = RunStats::default();
        match run_caught::<P>(&scn, &mut st) {
            RunOutcome::Violation(v) if match_known(&known, P::ID, &v).map(|m| m.what == k.what).unwrap_or(false) => {
                known_hit.entry(k.what.clone()).or_insert(0);
            }
            _ => stale.push(k.what.clone()),
        }
    }
    for (k, n) in &known_hit {
        println!("KNOWN-FINDING: property={} {} (matched {} seeded runs)", P::ID, k, n);
    }
    for k in &stale {
        println!("  note: the replay of a listed known finding no longer fails (was it repaired? then move it to 'fixed'): {}", k);
    }
    if !harness_errs.is_empty() {
        for h in harness_errs.iter().take(5) {
            eprintln!("harness error: {}", h);
        }
        // a violation that did reproduce from its replay file stands; otherwise this is the harness's problem
        if exit != 1 {
            exit = 2;
        }
    }
    for (k, n) in &sut_panics {
        println!("  note: {} runs aborted by a panic inside the code under test ({}); owned by C01", n, k);
    }

    let wall = t0.elapsed().as_secs_f64();
    let zero_probes: Vec<String> = agg.probes.iter().filter(|(_, v)| **v == 0).map(|(k, _)| k.clone()).collect();
    let samples_v: Vec<Value> = samples.lock().unwrap().values().cloned().collect();
    let ev = json!({
        "property_id": P::ID,
        "tier": o.tier.name(),
        "seed": o.seed,
        "level": "exploration",
        "wall_s": wall,
        "violations": n_viol,
        "coverage": {
            "evaluations": agg.evals,
            "distinct_nontrivial": distinct_nontrivial.len(),
            "rule": P::rule(),
            "samples": samples_v,
            "exhaustive": false,
            "engine": P::ENGINE,
            "simulated_runs": executed,
            "systematic_runs": n_sys,
            "runs_per_hour": if wall > 0.0 { (executed as f64 / wall * 3600.0) as u64 } else { 0 },
            "seeds": {"base": o.seed, "first_run_seed": format!("{:016x}", rng::run_seed(seed, P::ID, 0)), "count": n_seeded},
            "sim_time_covered_s": agg.sim_ns as f64 / 1e9,
            "packets_delivered": agg.packets,
            "faults_fired": agg.faults,
            "probes": agg.probes,
            "probes_stuck_at_zero": zero_probes,
            "distinct_event_logs": distinct.len(),
            "distinct_interleavings": {"count": interleavings.len(), "measure": "netsim: hash of the merge order / arrival permutation of the run; poolsim: hash of the model channel's event sequence (send/recv/full/timeout/disconnect per queue) of each scheduled execution"},
            "batch_event_log_hash": format!("{:016x}", batch_hash),
            "known_findings_matched": known_hit,
            "violations": viol_summ,
            "timing_verdicts_discarded_as_machine_noise": discarded_timing,
            "sut_panics_owned_by_C01": sut_panics,
            "extra": P::extra_evidence(o.tier),
        },
        "assumptions": [],
    });
    if let Some(p) = &o.evidence {
        if let Some(dir) = std::path::Path::new(p).parent() {
            std::fs::create_dir_all(dir).ok();
        }
        if let Err(e) = std::fs::write(p, serde_json::to_string_pretty(&ev).unwrap_or_default()) {
            eprintln!("harness: cannot write evidence {}: {}", p, e);
            return 2;
        }
    }
    println!(
        "[{}] {} runs ({} evaluations) in {:.1}s, {} packets, {:.0} simulated s, {} distinct logs ({} non-trivial), violations={}, known={}, exit={}",
        P::ID,
        executed,
        agg.evals,
        wall,
        agg.packets,
        agg.sim_ns as f64 / 1e9,
        distinct.len(),
        distinct_nontrivial.len(),
        n_viol,
        known_hit.len(),
        exit
    );
    if hung.is_some() {
        // worker threads may still be stuck inside the code under test
        std::process::exit(exit);
    }
    exit
}

fn sanitize(s: &str) -> String {
    s.chars().map(|c| if c.is_ascii_alphanumeric() || c == '-' || c == '_' || c == '.' { c } else { '_' }).take(80).collect()
}

fn verify_replay_fresh(path: &str, v: &Violation) -> bool {
    let Ok(exe) = std::env::current_exe() else { return false };
    let out = std::process::Command::new(exe).arg("replay").arg(path).output();
    match out {
        Ok(o) => {
            let s = String::from_utf8_lossy(&o.stdout);
            o.status.code() == Some(1) && s.contains(&format!("REPRODUCED class={} key={}", v.class, v.key))
        }
        Err(_) => false,
    }
}

/// `vsim emit ID --index I`: the replay file of run I of the batch (same seed, tier), without running it.
pub fn emit<P: Prop>(o: &Opts, index: u64) -> i32 {
    let systematic: Vec<P::Scn> = P::systematic(o.tier);
    let n_sys = systematic.len() as u64;
    let seed = o.seed;
    let scn = if index < n_sys {
        systematic[index as usize].clone()
    } else {
        let mut r = Rng::new(rng::run_seed(seed, P::ID, index - n_sys));
        P::generate(&mut r, o.tier, index - n_sys)
    };
    std::fs::create_dir_all(&o.out_dir).ok();
    let path = format!("{}/{}-abort-{:016x}.json", o.out_dir, P::ID, rng::run_seed(seed, P::ID, index));
    let rf = ReplayFile {
        property: P::ID.to_string(),
        engine: P::ENGINE.to_string(),
        class: "abort".to_string(),
        key: "process-died".to_string(),
        detail: format!("run {} of the batch (seed {}) was in flight when the process died; replaying this file in a process of its own decides whether it is the one", index, seed),
        seed,
        run_index: index as i64,
        minimised: false,
        scenario: serde_json::to_value(&scn).unwrap_or(Value::Null),
        prelude: vec![],
    };
    match std::fs::write(&path, serde_json::to_string_pretty(&rf).unwrap_or_default()) {
        Ok(()) => {
            println!("{}", path);
            0
        }
        Err(e) => {
            eprintln!("harness: cannot write {}: {}", path, e);
            2
        }
    }
}

/// `vsim replay FILE`: run exactly the scenario in the file; exit 1 and print the VIOLATION line if it fails the same way.
pub fn replay<P: Prop>(path: &str, rf: &ReplayFile) -> i32 {
    let scn: P::Scn = match serde_json::from_value(rf.scenario.clone()) {
        Ok(s) => s,
        Err(e) => {
            eprintln!("harness: cannot decode scenario in {}: {}", path, e);
            return 2;
        }
    };
    // a replay is one scenario, possibly a thorough one: the generous limit
    let limit = Duration::from_secs(P::run_wall_limit_s() * if P::ENGINE == "poolsim" { 15 } else { 1 });
    let (tx, rx) = std::sync::mpsc::channel();
    let scn2 = scn.clone();
    let prelude: Vec<P::Scn> = rf.prelude.iter().filter_map(|v| serde_json::from_value(v.clone()).ok()).collect();
    std::thread::Builder::new()
        .stack_size(64 << 20)
        .spawn(move || {
            for p in &prelude {
                let mut st = RunStats::default();
                let _ = run_caught::<P>(p, &mut st);
            }
            let mut st = RunStats::default();
            let out = run_caught::<P>(&scn2, &mut st);
            let _ = tx.send(match out {
                RunOutcome::Ok => None,
                RunOutcome::Violation(v) => Some(v),
                RunOutcome::SutPanic(s) => Some(Violation::new("sut-panic", s.clone(), s)),
                RunOutcome::HarnessError(s) => Some(Violation::new("harness-error", "", s)),
            });
        })
        .expect("spawn");
    // generous in wall time (the machine may be busy); the batch runner's own watchdog goes by CPU time
    let got = match rx.recv_timeout(limit * 2) {
        Ok(x) => x,
        Err(_) => Some(Violation::new("hang", "wall-limit", format!("did not finish within {} s", limit.as_secs()))),
    };
    match got {
        Some(v) if v.class == "harness-error" => {
            eprintln!("{}", v.detail);
            2
        }
        Some(v) => {
            println!("{}", v.detail);
            if v.class == rf.class && v.key == rf.key {
                println!("REPRODUCED class={} key={}", v.class, v.key);
            } else {
                println!("DIFFERENT class={} key={} (file says {}:{})", v.class, v.key, rf.class, rf.key);
            }
            let known = load_known();
            if let Some(k) = match_known(&known, P::ID, &v) {
                println!("KNOWN-FINDING: property={} {}", P::ID, k.what);
            }
            println!("VIOLATION property={} replay={}", P::ID, path);
            if v.class == "hang" {
                std::process::exit(1);
            }
            1
        }
        None => {
            println!("replay of {} : property held (no violation)", path);
            0
        }
    }
}
