//! C15 — filtering commutes with analysis: filters remove packets, never change results.
//!
//! Run A: analyzer with the filter on the whole trace. Run B: the same analyzer without a filter
//! on the sub-trace of packets whose own endpoints — as the analyzer's parser sees them — the
//! filter admits (or whose endpoints are undefined), at the same simulated times. The per-packet
//! results must agree, and nothing may be reported for rejected endpoints.

use crate::conn::{self, ConnOpts, MergeMode};
use crate::pkt::Framing;
use crate::rng::Rng;
use crate::runner::{Prop, RunStats, Tier, Violation};
use crate::sut::{self, FilterSpec, IpSpec, Kind, PortSpec, SubnetSpec, SutCfg, Timed};
use crate::tap::{self, Fault};
use huginn_net_verif_rt::clock;
use serde::{Deserialize, Serialize};
use std::net::IpAddr;

#[derive(Clone, Debug, Serialize, Deserialize)]
pub struct Scn {
    pub kind: Kind,
    pub cap: usize,
    pub filter: FilterSpec,
    pub trace: Vec<Timed>,
    /// unified analyzer: before frame `.0` the capture ends, the application installs filter `.1` on the same
    /// instance, and a new capture run starts
    #[serde(default)]
    pub refilter: Option<(usize, FilterSpec)>,
}

pub struct C15;

/// endpoints of a frame exactly as the analyzers' own parser + TCP view assign them
pub fn view(frame: &[u8]) -> Option<(IpAddr, IpAddr, u16, u16)> {
    use huginn_net_tcp::packet_parser::{parse_packet, IpPacket};
    use pnet::packet::tcp::TcpPacket;
    use pnet::packet::Packet;
    match parse_packet(frame) {
        IpPacket::Ipv4(ip) => {
            // the analyzers assign (and report) endpoints only for TCP
            if ip.get_next_level_protocol() != pnet::packet::ip::IpNextHeaderProtocols::Tcp {
                return None;
            }
            let tcp = TcpPacket::new(ip.payload())?;
            Some((IpAddr::V4(ip.get_source()), IpAddr::V4(ip.get_destination()), tcp.get_source(), tcp.get_destination()))
        }
        IpPacket::Ipv6(ip) => {
            if ip.get_next_header() != pnet::packet::ip::IpNextHeaderProtocols::Tcp {
                return None;
            }
            let tcp = TcpPacket::new(ip.payload())?;
            Some((IpAddr::V6(ip.get_source()), IpAddr::V6(ip.get_destination()), tcp.get_source(), tcp.get_destination()))
        }
        IpPacket::None => None,
    }
}

/// What raw_filter.rs's quick extraction reads from the same bytes (harness re-statement of its
/// documented steps, used only to *explain* a violation, never to decide one).
pub fn raw_view(frame: &[u8]) -> Option<(IpAddr, IpAddr, u16, u16)> {
    fn v4(p: &[u8]) -> Option<(IpAddr, IpAddr, u16, u16)> {
        if p.len() < 20 || p[9] != 6 {
            return None;
        }
        let off = (p[0] & 0x0f) as usize * 4;
        if p.len() < off + 4 {
            return None;
        }
        Some((IpAddr::V4([p[12], p[13], p[14], p[15]].into()), IpAddr::V4([p[16], p[17], p[18], p[19]].into()), u16::from_be_bytes([p[off], p[off + 1]]), u16::from_be_bytes([p[off + 2], p[off + 3]])))
    }
    fn v6(p: &[u8]) -> Option<(IpAddr, IpAddr, u16, u16)> {
        if p.len() < 44 || p[6] != 6 {
            return None;
        }
        let mut a = [0u8; 16];
        a.copy_from_slice(&p[8..24]);
        let mut b = [0u8; 16];
        b.copy_from_slice(&p[24..40]);
        Some((IpAddr::V6(a.into()), IpAddr::V6(b.into()), u16::from_be_bytes([p[40], p[41]]), u16::from_be_bytes([p[42], p[43]])))
    }
    if frame.len() >= 14 {
        let r = match u16::from_be_bytes([frame[12], frame[13]]) {
            0x0800 => v4(&frame[14..]),
            0x86dd => v6(&frame[14..]),
            _ => None,
        };
        if r.is_some() {
            return r;
        }
    }
    if !frame.is_empty() {
        let r = match frame[0] >> 4 {
            4 => v4(frame),
            6 => v6(frame),
            _ => None,
        };
        if r.is_some() {
            return r;
        }
    }
    if frame.len() >= 4 {
        return match u32::from_ne_bytes([frame[0], frame[1], frame[2], frame[3]]) {
            2 => v4(&frame[4..]),
            30 | 28 => v6(&frame[4..]),
            _ => None,
        };
    }
    None
}

fn describe_frame(frame: &[u8]) -> &'static str {
    if frame.len() >= 2 && frame[0] == 0x1e && frame[1] == 0x00 {
        return "null-1e-framing";
    }
    let ipo = tap::ip_offset(frame);
    let eth_v4 = ipo == 14 && frame[12] == 0x08 && frame[13] == 0x00;
    if let Some(b) = frame.get(ipo) {
        if (b >> 4 == 4 || eth_v4) && (b & 0x0f) < 5 {
            return "ipv4-ihl-below-5";
        }
        if (b >> 4 == 4 || eth_v4) && (b & 0x0f) > 5 {
            return "ipv4-with-options";
        }
    }
    if ipo == 4 {
        return "loopback-af-header";
    }
    "plain"
}

pub fn gen_filter(r: &mut Rng, trace: &[Timed]) -> FilterSpec {
    let mut ips: Vec<IpAddr> = vec![];
    let mut ports: Vec<u16> = vec![];
    for p in trace {
        if let Some((a, b, sp, dp)) = view(&p.frame) {
            for x in [a, b] {
                if !ips.contains(&x) {
                    ips.push(x);
                }
            }
            for x in [sp, dp] {
                if !ports.contains(&x) {
                    ports.push(x);
                }
            }
        }
    }
    // both spellings of an embedded IPv4 address are candidates for the rules
    let mut extra = vec![];
    for a in &ips {
        if let IpAddr::V6(v) = a {
            let s = v.segments();
            if s[..5] == [0, 0, 0, 0, 0] && (s[5] == 0xffff || s[5] == 0) {
                extra.push(IpAddr::V4(std::net::Ipv4Addr::new((s[6] >> 8) as u8, s[6] as u8, (s[7] >> 8) as u8, s[7] as u8)));
            }
        }
    }
    for e in extra {
        if !ips.contains(&e) {
            ips.push(e);
        }
    }
    if ips.is_empty() {
        ips.push("10.0.0.1".parse().unwrap());
    }
    if ports.is_empty() {
        ports.push(80);
    }
    let half = |r: &mut Rng, v: &Vec<u16>| -> Vec<u16> { v.iter().filter(|_| r.chance(1, 2)).cloned().collect() };
    let mut f = FilterSpec { deny: r.chance(1, 3), ..Default::default() };
    let which = r.below(8);
    if which & 1 != 0 || which == 0 {
        let mut p = PortSpec::default();
        match r.below(4) {
            0 => p.dst = half(r, &ports),
            1 => p.src = half(r, &ports),
            2 => {
                p.src = half(r, &ports);
                p.dst = half(r, &ports);
            }
            _ => {
                let a = *r.pick(&ports);
                p.dst_ranges.push((a.saturating_sub(r.below(3) as u16), a.saturating_add(r.below(3) as u16)));
                if r.chance(1, 2) {
                    p.src_ranges.push((1024, 65535));
                }
            }
        }
        p.any = r.chance(1, 3);
        f.port = Some(p);
    }
    if which & 2 != 0 {
        let addrs: Vec<IpAddr> = ips.iter().filter(|_| r.chance(1, 2)).cloned().collect();
        let (cs, cd) = *r.pick(&[(true, true), (true, false), (false, true)]);
        f.ip = Some(IpSpec { addrs, check_src: cs, check_dst: cd });
    }
    if which & 4 != 0 {
        let a = *r.pick(&ips);
        let net = match a {
            IpAddr::V4(v) => {
                let o = v.octets();
                let pl = *r.pick(&[32u8, 31, 30, 24, 23, 17, 8, 1, 0]);
                let m: u32 = if pl == 0 { 0 } else { u32::MAX << (32 - pl as u32) };
                let n = u32::from_be_bytes(o) & m;
                (IpAddr::V4(n.to_be_bytes().into()), pl)
            }
            IpAddr::V6(v) => {
                let pl = *r.pick(&[128u8, 127, 120, 112, 96, 65, 64, 63, 48, 45, 32, 1, 0]);
                let n = u128::from_be_bytes(v.octets());
                let m: u128 = if pl == 0 { 0 } else { u128::MAX << (128 - pl as u32) };
                (IpAddr::V6((n & m).to_be_bytes().into()), pl)
            }
        };
        let (cs, cd) = *r.pick(&[(true, true), (true, false), (false, true)]);
        // one rule in three is written the way `ip addr` prints it: the host's own address with the prefix length
        let as_written = if r.chance(1, 3) { vec![(a, net.1)] } else { vec![] };
        f.subnet = Some(SubnetSpec { nets: vec![net], as_written, check_src: cs, check_dst: cd });
    }
    f
}

fn run(cfg: &SutCfg, trace: &[Timed]) -> Result<Vec<sut::PktOut>, Violation> {
    clock::arm(1_700_000_000_000);
    #[cfg(not(huginn_net_verif_sched))]
    let r = if cfg.kind == Kind::Unified { sut::run_loop(cfg, trace) } else { sut::run_deliver(cfg, trace) };
    #[cfg(huginn_net_verif_sched)]
    let r = sut::run_deliver(cfg, trace);
    r.map_err(|e| Violation::new("harness-error", "", e))
}

impl Prop for C15 {
    type Scn = Scn;
    const ID: &'static str = "C15";
    const ENGINE: &'static str = crate::NETSIM_ENGINE;

    fn rule() -> &'static str {
        "one evaluation = one (trace, filter) pair: the analyzer with the filter on the whole trace vs without filter on the sub-trace the filter admits by the analyzer's own view of each frame; non-trivial = the filter admits some and rejects some frames of the trace AND the unfiltered run reports something; distinct = distinct event-log hash"
    }

    fn runs(tier: Tier) -> u64 {
        tier.pick(40_000, 2_000_000)
    }

    fn generate(r: &mut Rng, _tier: Tier, _idx: u64) -> Scn {
        let kind = *r.pick(&Kind::ALL);
        let n = r.urange(2, 6);
        let v6 = r.chance(1, 4);
        let mut eps = conn::endpoints(r, n, v6);
        // one IPv4 scenario in ten: a raw-IP connection whose first bytes read like an Ethernet header in front of an
        // option-less IPv4/TCP packet when taken at Ethernet offsets - source address 8.x.69.y (bytes 12 and 14 of the
        // packet: 0x08 as the first EtherType byte, 0x45 as version/IHL) and a destination port whose low byte is 6
        // (byte 23: protocol TCP)
        let raw_lookalike = !v6 && r.chance(1, 10);
        if raw_lookalike {
            eps[0].0 = crate::pkt::Endpoint::v4(8, *r.pick(&[0u8, 1, 8, 0x45, r.clone().u8()]), 0x45, r.u8(), 1024 + r.below(60000) as u16);
            eps[0].1.port = 6 + 256 * r.urange(1, 200) as u16;
        }
        // loopback captures from other platforms: every address-family word in use, in both byte orders
        let foreign = Framing::NullFamily { fam: *r.pick(&[2u8, 2, 10, 24, 28, 30]), big_endian: r.chance(1, 2) };
        let tagged = Framing::Vlan { tpid: *r.pick(&[0x8100u16, 0x8100, 0x88a8, 0x9100]), tci: r.u16() };
        let cooked = Framing::Sll { pkttype: *r.pick(&[0u8, 0, 4, 1]) };
        let base_framing = *r.pick(&[Framing::Ethernet, Framing::Ethernet, Framing::Ethernet, Framing::RawIp, Framing::RawIp, Framing::Null1e, Framing::NullAf, foreign, tagged, cooked]);
        let mut conns = vec![];
        for (c, s) in &eps {
            let framing = if r.chance(1, 6) { *r.pick(&[Framing::Ethernet, Framing::RawIp, Framing::Null1e, Framing::NullAf, foreign, tagged, cooked]) } else { base_framing };
            let framing = if raw_lookalike && (*c, *s) == eps[0] { Framing::RawIp } else { framing };
            let o = ConnOpts { v6, framing, max_parts: 3, gap_lo: 50_000, gap_hi: 20_000_000, tls_single_segment: kind == Kind::Unified };
            let ck = super::c07::kinds_for(kind, r);
            let mut c = conn::build(r, ck, *c, *s, &o);
            // one IPv4 connection in eight travels with IP options on every packet (record route, padding: 4..40
            // bytes), so that the header faults below also meet packets whose IP header is longer than 20 bytes
            if !v6 && r.chance(1, 8) {
                let n = 4 * r.urange(1, 10);
                for st in c.steps.iter_mut() {
                    st.seg.ip_opts = vec![1u8; n];
                }
            }
            // frame-size extreme: on one IPv6 connection in ten the SYN carries so much data that the IP part of the
            // frame is 65536..65575 bytes (what a 64 KiB loopback MTU allows; lengths that no longer fit 16 bits)
            if v6 && r.chance(1, 10) {
                if let Some(st) = c.steps.first_mut() {
                    let hdr = 40 + 20 + st.seg.tcp_opts.len().div_ceil(4) * 4;
                    let k = r.usize_below(36);
                    st.seg.payload = r.bytes(65536 + k - hdr);
                }
            }
            // IPv4 options on some connections (IHL > 5 with matching option bytes)
            if !v6 && r.chance(1, 5) {
                let n = 4 * r.urange(1, 4);
                for st in c.steps.iter_mut() {
                    st.seg.ip_opts = vec![1u8; n];
                }
            }
            conns.push(c);
        }
        // IPv6 hosts sometimes use address forms that embed an IPv4 address (IPv4-mapped ::ffff:a.b.c.d,
        // IPv4-compatible ::a.b.c.d, 6to4 2002:aabb:ccdd::): legal on the wire, and a filter must treat them
        // as the IPv6 addresses the analyzer reports
        if v6 && r.chance(1, 3) {
            let form = r.below(3);
            let remap = |e: &mut crate::pkt::Endpoint| {
                if let IpAddr::V6(a) = e.ip {
                    let s = a.segments();
                    let (hi, lo) = (0x0a00u16, (s[7] & 0xff) as u16 | 0x0100);
                    e.ip = IpAddr::V6(match form {
                        0 => std::net::Ipv6Addr::new(0, 0, 0, 0, 0, 0xffff, hi, lo),
                        1 => std::net::Ipv6Addr::new(0, 0, 0, 0, 0, 0, hi, lo),
                        _ => std::net::Ipv6Addr::new(0x2002, hi, lo, 0, 0, 0, 0, 1),
                    });
                }
            };
            for c in conns.iter_mut() {
                remap(&mut c.client);
                remap(&mut c.server);
                for st in c.steps.iter_mut() {
                    remap(&mut st.seg.src);
                    remap(&mut st.seg.dst);
                }
            }
        }
        let lens: Vec<usize> = conns.iter().map(|c| c.steps.len()).collect();
        let mode = *r.pick(&[MergeMode::Uniform, MergeMode::RoundRobin, MergeMode::Bursts]);
        let order = conn::merge_order(r, &lens, mode);
        let mut trace = conn::to_trace(&conns, &order);
        // malformed frames from the byte_set / frame faults
        let nf = r.urange(0, 5);
        for _ in 0..nf {
            if trace.is_empty() {
                break;
            }
            let i = r.usize_below(trace.len());
            let f = *r.pick(&[Fault::IhlSet, Fault::IhlSet, Fault::TotalLenLie, Fault::ProtocolSet, Fault::EthertypeSet, Fault::Truncate, Fault::DataOffsetSet, Fault::IpVersionSet, Fault::Ipv6PayloadLenLie, Fault::BitFlip]);
            let mut fr = trace[i].frame.clone();
            if tap::apply(r, f, &mut fr) {
                trace[i].frame = fr;
                trace[i].conn = usize::MAX - 1 - f as usize;
            }
        }
        let filter = gen_filter(r, &trace);
        // unified analyzer, one trace in three: the filter is replaced half-way, at a point where the same connection
        // continues across the boundary more often than not
        let refilter = if kind == Kind::Unified && trace.len() >= 4 && r.chance(1, 3) {
            let k = r.urange(1, trace.len() - 1);
            Some((k, gen_filter(r, &trace)))
        } else {
            None
        };
        Scn { kind, cap: 64 + r.usize_below(200), filter, trace, refilter }
    }

    fn run(s: &Scn, st: &mut RunStats) -> Result<(), Violation> {
        let mut with = SutCfg::new(s.kind, s.cap);
        with.filter = Some(s.filter.clone());
        let without = SutCfg::new(s.kind, s.cap);
        let fcfg = sut::filter_canonical(&s.filter);
        let second = s.refilter.as_ref().filter(|_| s.kind == Kind::Unified).map(|(k, f)| (*k, sut::filter_canonical(f)));
        let admit: Vec<Option<bool>> = s
            .trace
            .iter()
            .enumerate()
            .map(|(i, p)| {
                let f = match &second {
                    Some((k, f2)) if i >= *k => f2,
                    _ => &fcfg,
                };
                view(&p.frame).map(|(a, b, sp, dp)| f.should_process(&a, &b, sp, dp))
            })
            .collect();
        let sub: Vec<Timed> = s.trace.iter().zip(admit.iter()).filter(|(_, ad)| ad.unwrap_or(true)).map(|(p, _)| p.clone()).collect();
        #[cfg(not(huginn_net_verif_sched))]
        let (a, b) = match (&s.refilter, second.is_some()) {
            (Some((k, f2)), true) if *k > 0 && *k < s.trace.len() => {
                st.fault("filter_replaced_on_a_used_instance");
                clock::arm(1_700_000_000_000);
                let a = sut::run_loop_refilter(&with, &s.trace, &[*k], &[(*k, f2.clone())]).map_err(|e| Violation::new("harness-error", "", e))?;
                let k_sub = admit[..*k].iter().filter(|ad| ad.unwrap_or(true)).count();
                clock::arm(1_700_000_000_000);
                let b = sut::run_loop_breaks(&without, &sub, &[k_sub]).map_err(|e| Violation::new("harness-error", "", e))?;
                (a, b)
            }
            _ => (run(&with, &s.trace)?, run(&without, &sub)?),
        };
        #[cfg(huginn_net_verif_sched)]
        let (a, b) = (run(&with, &s.trace)?, run(&without, &sub)?);
        st.packets += (s.trace.len() + sub.len()) as u64;
        st.sim_ns += s.trace.last().map(|p| p.t).unwrap_or(0);
        let n_adm = admit.iter().filter(|x| **x == Some(true)).count();
        let n_rej = admit.iter().filter(|x| **x == Some(false)).count();
        st.probe_n("frames_admitted", n_adm as u64);
        st.probe_n("frames_rejected", n_rej as u64);
        st.probe_n("frames_with_undefined_endpoints", admit.iter().filter(|x| x.is_none()).count() as u64);
        for p in &s.trace {
            if p.conn >= usize::MAX - 64 && p.conn != usize::MAX {
                st.fault(Fault::ALL[(usize::MAX - 1 - p.conn).min(Fault::ALL.len() - 1)].name());
            }
            match describe_frame(&p.frame) {
                "plain" => {}
                d => st.probe(&format!("frame_{}", d)),
            }
        }
        let mut j = 0usize;
        let mut any_b = false;
        for (i, p) in s.trace.iter().enumerate() {
            let adm = admit[i].unwrap_or(true);
            let ao = &a[i];
            for o in &ao.obs {
                st.ev(&o.text);
            }
            if !adm {
                if !ao.obs.is_empty() {
                    let o = &ao.obs[0];
                    return Err(Violation::new(
                        "result-for-rejected-endpoints",
                        format!("{}:{}", s.kind.name(), describe_frame(&p.frame)),
                        format!("frame {} ({}): the filter rejects {:?} (raw filter sees {:?}) but the filtered analyzer reports {}; bytes {}", i, describe_frame(&p.frame), view(&p.frame), raw_view(&p.frame), o.short(), crate::pkt::hex(&p.frame[..p.frame.len().min(80)])),
                    ));
                }
                continue;
            }
            let bo = &b[j];
            j += 1;
            if !bo.obs.is_empty() {
                any_b = true;
            }
            if ao.obs != bo.obs {
                let class = if ao.obs.len() < bo.obs.len() { "lost-with-filter" } else if ao.obs.len() > bo.obs.len() { "extra-with-filter" } else { "altered-by-filter" };
                // which earlier frame did the raw filter and the parser disagree on?
                let cul = s.trace[..=i].iter().enumerate().rev().find(|(_, q)| view(&q.frame).is_some() && raw_view(&q.frame) != view(&q.frame));
                let culprit = cul.map(|(_, q)| describe_frame(&q.frame)).unwrap_or("no-disagreeing-frame");
                let extra = cul.map(|(k, q)| format!("; frame {} ({}): parser sees {:?}, raw filter sees {:?}, bytes {}", k, describe_frame(&q.frame), view(&q.frame), raw_view(&q.frame), crate::pkt::hex(&q.frame[..q.frame.len().min(80)]))).unwrap_or_default();
                return Err(Violation::new(
                    class,
                    format!("{}:{}", s.kind.name(), culprit),
                    format!(
                        "frame {}: with filter [{}], without filter on the admitted sub-trace [{}]{}",
                        i,
                        ao.obs.iter().map(|o| o.short()).collect::<Vec<_>>().join(" | "),
                        bo.obs.iter().map(|o| o.short()).collect::<Vec<_>>().join(" | "),
                        extra
                    ),
                ));
            }
        }
        st.nontrivial = n_adm > 0 && n_rej > 0 && any_b;
        Ok(())
    }

    fn shrink(s: &Scn) -> Vec<Scn> {
        let mut out = vec![];
        let n = s.trace.len();
        if n > 4 {
            let mut x = s.clone();
            x.trace.truncate(n / 2);
            out.push(x);
            let mut y = s.clone();
            y.trace.drain(..n / 2);
            out.push(y);
        }
        for i in (0..n).rev() {
            let mut x = s.clone();
            x.trace.remove(i);
            out.push(x);
        }
        for part in 0..3 {
            let mut x = s.clone();
            match part {
                0 if x.filter.port.is_some() => x.filter.port = None,
                1 if x.filter.ip.is_some() => x.filter.ip = None,
                2 if x.filter.subnet.is_some() => x.filter.subnet = None,
                _ => continue,
            }
            out.push(x);
        }
        if s.kind != Kind::Tcp {
            let mut x = s.clone();
            x.kind = Kind::Tcp;
            out.push(x);
        }
        out
    }
}
