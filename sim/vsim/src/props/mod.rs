pub mod c08;
pub mod c17;
pub mod c19;
pub mod c09;
pub mod c07;
pub mod c20;
pub mod c15;
pub mod c01;
