pub mod c08;
pub mod c17;
