pub mod c08;
