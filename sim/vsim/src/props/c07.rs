//! C07 — connections are analysed in isolation: results do not depend on other traffic.
//!
//! N simulated connections with distinct 4-tuples (sharing hosts, ports and servers on purpose)
//! are merged order-preservingly into one trace with simulated arrival times and fed to one
//! analyzer instance; every connection is then replayed alone, at the same simulated times, on a
//! fresh instance.  The per-packet result sequences must be identical.

use crate::conn::{self, Conn, ConnKind, ConnOpts, MergeMode};
use crate::pkt::Framing;
use crate::rng::Rng;
use crate::runner::{Prop, RunStats, Tier, Violation};
use crate::sut::{self, Kind, SutCfg, Timed};
use huginn_net_verif_rt::clock;
use serde::{Deserialize, Serialize};

#[derive(Clone, Debug, Serialize, Deserialize)]
pub struct Scn {
    pub kind: Kind,
    pub cap: usize,
    pub conns: Vec<Conn>,
    pub order: Vec<usize>,
    pub via_loop: bool,
    /// fault (with `via_loop`, not for the TCP analyzer whose loop owns its tracker): the capture source ends
    /// before these frame indices and the same instance is started again
    #[serde(default)]
    pub boundaries: Vec<usize>,
    /// fault: the wall clock steps (suspend/resume, NTP) at these simulated times (ns) by this many ms; the
    /// monotonic clock, which ages the table entries, does not. Connections replayed alone meet the same steps.
    #[serde(default)]
    pub wall_jumps: Vec<(u64, i64)>,
}

pub struct C07;

pub fn kinds_for(k: Kind, r: &mut Rng) -> ConnKind {
    match k {
        Kind::Tcp => *r.pick(&[ConnKind::TcpOnly, ConnKind::TcpOnly, ConnKind::Http1, ConnKind::Tls]),
        Kind::Tls => *r.pick(&[ConnKind::TlsReversed, ConnKind::Tls, ConnKind::Tls, ConnKind::Tls, ConnKind::Http1, ConnKind::Garbage]),
        Kind::Http => *r.pick(&[ConnKind::Http1, ConnKind::Http1, ConnKind::Http2, ConnKind::Http2, ConnKind::Http2Hostile, ConnKind::Garbage, ConnKind::TlsThenHttpResponse, ConnKind::Http1Reversed]),
        Kind::Unified => *r.pick(&[ConnKind::TcpOnly, ConnKind::Tls, ConnKind::Http1, ConnKind::Http2, ConnKind::Http2, ConnKind::Http2Hostile, ConnKind::Garbage, ConnKind::TlsThenHttpResponse, ConnKind::Http1Reversed]),
    }
}

fn run_trace(cfg: &SutCfg, trace: &[Timed], via_loop: bool, boundaries: &[usize]) -> Result<Vec<sut::PktOut>, Violation> {
    run_trace_jumps(cfg, trace, via_loop, boundaries, &[])
}

fn run_trace_jumps(cfg: &SutCfg, trace: &[Timed], via_loop: bool, boundaries: &[usize], jumps: &[(u64, i64)]) -> Result<Vec<sut::PktOut>, Violation> {
    clock::arm(1_700_000_000_000);
    sut::set_wall_jumps(jumps.to_vec());
    #[cfg(not(huginn_net_verif_sched))]
    let r = if via_loop { sut::run_loop_breaks(cfg, trace, boundaries) } else { sut::run_deliver(cfg, trace) };
    #[cfg(huginn_net_verif_sched)]
    let r = {
        let _ = (via_loop, boundaries);
        sut::run_deliver(cfg, trace)
    };
    r.map_err(|e| Violation::new("harness-error", "", e))
}

impl Prop for C07 {
    type Scn = Scn;
    const ID: &'static str = "C07";
    const ENGINE: &'static str = crate::NETSIM_ENGINE;

    fn rule() -> &'static str {
        "one evaluation = one order-preserving interleaving of 2..8 generated connections on one analyzer instance, compared per connection and per packet with that connection alone on a fresh instance at the same simulated times; non-trivial = at least two connections produce results AND the merge really interleaves them (not a concatenation); distinct = distinct merge-order hash"
    }

    fn runs(tier: Tier) -> u64 {
        tier.pick(40_000, 2_000_000)
    }

    fn generate(r: &mut Rng, tier: Tier, _idx: u64) -> Scn {
        let kind = *r.pick(&Kind::ALL);
        // population scenario, one in three hundred: thousands of connections open at once on one instance, a third
        // of them ended by a reset that carries data, the others exchanging their messages afterwards. Structures
        // keyed by hashes or partial identities only meet coincidences at this scale.
        if r.chance(1, 300) {
            let n = r.urange(1000, tier.pick(2500, 6000));
            let mut seen = std::collections::BTreeSet::new();
            let mut eps = vec![];
            while eps.len() < n {
                let c = crate::pkt::Endpoint::v4(10, r.u8(), r.u8(), 1 + r.below(250) as u8, 1024 + r.below(60000) as u16);
                let s = crate::pkt::Endpoint::v4(172, 16 + r.below(4) as u8, r.u8(), 1 + r.below(250) as u8, *r.pick(&[80u16, 8080, 443]));
                if seen.insert((c, s)) {
                    eps.push((c, s));
                }
            }
            let o = ConnOpts { v6: false, framing: Framing::Ethernet, max_parts: 2, gap_lo: 1_000, gap_hi: 5_000, tls_single_segment: true };
            let ck = match kind {
                Kind::Tcp => ConnKind::TcpOnly,
                Kind::Tls => ConnKind::Tls,
                _ => ConnKind::Http1,
            };
            let mut conns: Vec<Conn> = eps.iter().map(|(c, s)| conn::build(r, ck, *c, *s, &o)).collect();
            let mut closer = vec![false; n];
            for (i, c) in conns.iter_mut().enumerate() {
                if r.chance(1, 3) {
                    // ends with a reset riding on its first data segment
                    if let Some(k) = c.steps.iter().position(|st| st.seg.src == c.client && !st.seg.payload.is_empty()) {
                        c.steps.truncate(k + 1);
                        c.steps[k].seg.flags |= crate::pkt::RST;
                        closer[i] = true;
                    }
                }
            }
            // order: every handshake, then the closers, then everything else round-robin
            let mut order = vec![];
            let hs: Vec<usize> = conns.iter().map(|c| c.steps.len().min(3)).collect();
            for k in 0..3 {
                for (i, h) in hs.iter().enumerate() {
                    if k < *h {
                        order.push(i);
                    }
                }
            }
            for (i, c) in conns.iter().enumerate() {
                if closer[i] {
                    order.extend(std::iter::repeat(i).take(c.steps.len() - hs[i]));
                }
            }
            let maxlen = conns.iter().map(|c| c.steps.len()).max().unwrap_or(0);
            for k in 3..maxlen {
                for (i, c) in conns.iter().enumerate() {
                    if !closer[i] && k < c.steps.len() {
                        order.push(i);
                    }
                }
            }
            return Scn { kind, cap: 2 * n + 16, conns, order, via_loop: false, boundaries: vec![], wall_jumps: vec![] };
        }
        // staggered expiry under exact capacity (TCP and unified analyzers, one run in 150): m connections whose
        // timestamp references are taken 100 s apart, a tracker of m-1 entries; the first connection speaks again
        // after 400 s, the last one starts after the first one's reference has expired (650 s) but before the
        // second one's has, and then the others speak again. At no time are more than m-1 entries alive.
        if matches!(kind, Kind::Tcp | Kind::Unified) && r.chance(1, 150) {
            let m = r.urange(3, 5);
            let s_ns = 1_000_000_000u64;
            let mut conns: Vec<Conn> = vec![];
            let mut events: Vec<(u64, usize)> = vec![]; // (absolute time, connection)
            for i in 0..m {
                let client = crate::pkt::Endpoint::v4(10, 0, 0, 1 + i as u8, 40000 + i as u16);
                let server = crate::pkt::Endpoint::v4(10, 0, 0, 10, 80);
                let hc = crate::gen::tcp::Host { profile: *r.pick(&[0usize, 3, 4]), ts_hz: *r.pick(&[100u32, 250, 1000]), ts_base: r.u32() >> 2, ttl: 64 };
                let hs = crate::gen::tcp::Host { profile: 1, ts_hz: 0, ts_base: 0, ttl: 128 };
                let start = if i + 1 == m { 650 * s_ns } else { i as u64 * 100 * s_ns };
                let mut times = vec![start, start + 20_000_000];
                if i == 0 {
                    times.push(400 * s_ns + r.below(50) * s_ns);
                } else if i + 1 < m {
                    times.push(655 * s_ns + i as u64 * 5 * s_ns + r.below(4) * s_ns);
                } else {
                    times.push(start + 2 * s_ns);
                }
                let mut steps = vec![];
                let mut prev = 0u64;
                for (k, t) in times.iter().enumerate() {
                    let seg = match k {
                        0 => crate::gen::tcp::syn(&hc, client, server, 1000, *t),
                        1 => crate::gen::tcp::syn_ack(&hs, client, server, 5000, 1000, *t, 0),
                        _ => crate::gen::tcp::data(&hc, client, server, 1001, 5001, vec![], *t, 0, crate::pkt::ACK),
                    };
                    steps.push(conn::Step { dt_ns: *t - prev, seg });
                    prev = *t;
                    events.push((*t, i));
                }
                conns.push(Conn { kind: ConnKind::TcpOnly, client, server, framing: Framing::Ethernet, steps, raw_override: vec![] });
            }
            events.sort();
            let order: Vec<usize> = events.iter().map(|e| e.1).collect();
            return Scn { kind, cap: m - 1, conns, order, via_loop: false, boundaries: vec![], wall_jumps: vec![] };
        }
        // staggered lifetimes under exact capacity, TLS analyzer (one run in 100): A completes its hello; B leaves an
        // unfinished one; nothing happens for 21..55 s; C opens a TLS flow; then A sends a second ClientHello on a
        // segment of its own. The table holds two entries, and at no time are more than two flows alive.
        if kind == Kind::Tls && r.chance(1, 100) {
            let s_ns = 1_000_000_000u64;
            let gap = *r.pick(&[21u64, 31, 45, 55]) * s_ns;
            let h = crate::gen::tcp::Host { profile: 0, ts_hz: 1000, ts_base: 5, ttl: 64 };
            let server = crate::pkt::Endpoint::v4(10, 0, 0, 10, 443);
            let hello = |r: &mut Rng| {
                let mut spec = crate::gen::tls::random_spec(r, 500);
                spec.target_len = 0;
                spec.coalesced_before = 0;
                spec.exact_body = None;
                crate::gen::tls::client_hello(r, &spec)
            };
            let mut conns: Vec<Conn> = vec![];
            let mut events: Vec<(u64, usize)> = vec![];
            for i in 0..3usize {
                let client = crate::pkt::Endpoint::v4(10, 0, 0, 1 + i as u8, 41000 + i as u16);
                let first = hello(r);
                let mut plan: Vec<(u64, crate::pkt::Seg)> = vec![];
                let t0 = match i {
                    0 => 0,
                    1 => s_ns,
                    _ => s_ns + gap,
                };
                plan.push((t0, crate::gen::tcp::syn(&h, client, server, 1000, t0)));
                plan.push((t0 + 1_000_000, crate::gen::tcp::syn_ack(&h, client, server, 5000, 1000, t0, 1)));
                match i {
                    1 => {
                        // B: the first part of its hello only
                        let cut = (first.len() / 2).max(6);
                        plan.push((t0 + 2_000_000, crate::gen::tcp::data(&h, client, server, 1001, 5001, first[..cut].to_vec(), t0, 1, crate::pkt::ACK | crate::pkt::PSH)));
                    }
                    _ => {
                        plan.push((t0 + 2_000_000, crate::gen::tcp::data(&h, client, server, 1001, 5001, first.clone(), t0, 1, crate::pkt::ACK | crate::pkt::PSH)));
                    }
                }
                if i == 0 {
                    // A's second ClientHello (HelloRetryRequest), after C has opened its flow
                    let second = hello(r);
                    let t2 = s_ns + gap + 10_000_000 + r.below(3) * s_ns;
                    plan.push((t2, crate::gen::tcp::data(&h, client, server, 1001u32.wrapping_add(first.len() as u32), 5001, second, t2, 1, crate::pkt::ACK | crate::pkt::PSH)));
                }
                let mut steps = vec![];
                let mut prev = 0u64;
                for (t, seg) in plan {
                    steps.push(conn::Step { dt_ns: t - prev, seg });
                    prev = t;
                    events.push((t, i));
                }
                conns.push(Conn { kind: ConnKind::Tls, client, server, framing: Framing::Ethernet, steps, raw_override: vec![] });
            }
            events.sort();
            let order: Vec<usize> = events.iter().map(|e| e.1).collect();
            return Scn { kind, cap: 2, conns, order, via_loop: false, boundaries: vec![], wall_jumps: vec![] };
        }
        let n = r.urange(2, 8);
        let v6 = r.chance(1, 5);
        let eps = conn::endpoints(r, n, v6);
        let o = ConnOpts { v6, framing: *r.pick(&[Framing::Ethernet, Framing::Ethernet, Framing::RawIp]), max_parts: 4, gap_lo: 50_000, gap_hi: 30_000_000, tls_single_segment: kind == Kind::Unified && r.chance(1, 2) };
        let mode = *r.pick(&[MergeMode::Uniform, MergeMode::Uniform, MergeMode::RoundRobin, MergeMode::Bursts, MergeMode::FirstFirst]);
        // twin connections: the same a:p -> b:q once over IPv4 and once over IPv6 with IPv4-mapped addresses
        // (::ffff:a -> ::ffff:b): two distinct connections that differ only in address family
        let mut eps = eps;
        if !v6 && eps.len() >= 2 && r.chance(1, 6) {
            let map = |e: &crate::pkt::Endpoint| -> crate::pkt::Endpoint {
                match e.ip {
                    std::net::IpAddr::V4(a) => crate::pkt::Endpoint { ip: std::net::IpAddr::V6(a.to_ipv6_mapped()), port: e.port },
                    _ => *e,
                }
            };
            eps[1] = (map(&eps[0].0), map(&eps[0].1));
        }
        let mut conns: Vec<Conn> = vec![];
        for (i, (c, s)) in eps.iter().enumerate() {
            let mut ck = kinds_for(kind, r);
            if mode == MergeMode::FirstFirst && i == 0 && matches!(kind, Kind::Http | Kind::Unified) {
                ck = ConnKind::Http2Hostile;
            }
            conns.push(conn::build(r, ck, *c, *s, &o));
        }
        // successor connections (HTTP and TLS analyzers): a later connection reuses the 4-tuple of an earlier one
        // (port reuse), with new sequence numbers and new content, after the earlier one has ended or has simply
        // stopped half-way; its packets all come after the predecessor's
        let mut successors: Vec<(usize, usize)> = vec![]; // (predecessor, successor)
        if matches!(kind, Kind::Http | Kind::Tls) && r.chance(1, 3) {
            // prefer a predecessor that shares its pair of hosts with another connection (a key neighbour, a role swap)
            let shared: Vec<usize> = (0..conns.len()).filter(|i| (0..conns.len()).any(|j| j != *i && ((conns[j].client.ip == conns[*i].client.ip && conns[j].server.ip == conns[*i].server.ip) || (conns[j].client.ip == conns[*i].server.ip && conns[j].server.ip == conns[*i].client.ip)))).collect();
            let pi = if !shared.is_empty() && r.chance(2, 3) { *r.pick(&shared) } else { r.usize_below(conns.len()) };
            let ck = kinds_for(kind, r);
            // one time in three the roles are swapped: the earlier server's address and port now open the connection
            // (peers that call each other back, active-mode data channels)
            let swapped = r.chance(1, 3);
            let succ = if swapped { conn::build(r, ck, conns[pi].server, conns[pi].client, &o) } else { conn::build(r, ck, conns[pi].client, conns[pi].server, &o) };
            if r.chance(1, 2) && conns[pi].steps.len() > 4 {
                // the predecessor stops half-way
                let keep = r.urange(3, conns[pi].steps.len() - 1);
                conns[pi].steps.truncate(keep);
            }
            conns.push(succ);
            successors.push((pi, conns.len() - 1));
        }
        // fault: idle periods longer than a flow TTL (TLS 20 s, HTTP 60 s, uptime 600 s) in the middle of a
        // connection; the isolated replay happens at the same simulated times, so expiry is the same in both runs
        if r.chance(1, 5) {
            let ci = r.usize_below(conns.len());
            let n = conns[ci].steps.len();
            if n > 3 {
                // (any packet, the connection's SYN included: a connection that starts after everything else has
                // been silent for a while meets tables full of idle entries)
                let k = if r.chance(1, 3) { 0 } else { r.urange(2, n - 1) };
                conns[ci].steps[k].dt_ns += *r.pick(&[21_000_000_000u64, 31_000_000_000, 45_000_000_000, 61_000_000_000, 601_000_000_000]);
            }
        }
        let lens: Vec<usize> = conns.iter().map(|c| c.steps.len()).collect();
        let mut order = conn::merge_order(r, &lens, mode);
        for (pi, si) in &successors {
            // move every packet of the successor behind the last packet of its predecessor
            if let Some(last_p) = order.iter().rposition(|c| c == pi) {
                let early = order[..last_p].iter().filter(|c| *c == si).count();
                order = order.iter().enumerate().filter(|(i, c)| !(*i < last_p && *c == si)).map(|(_, c)| *c).collect();
                let at = order.iter().rposition(|c| c == pi).map(|p| p + 1).unwrap_or(0);
                for _ in 0..early {
                    order.insert(at, *si);
                }
            }
        }
        let via_loop = r.chance(1, 4);
        let boundaries = if via_loop && kind != Kind::Tcp && r.chance(1, 3) { (0..r.urange(1, 2)).map(|_| r.usize_below(order.len() + 1)).collect() } else { vec![] };
        // focused interleaving for half of the successor scenarios: the predecessor runs to its end, another connection
        // (preferably one sharing its hosts) gets as far as its first data segment, THEN the successor's SYN arrives,
        // and everything else follows in a uniform merge
        if let (Some((pi, si)), true) = (successors.first().cloned(), r.chance(1, 2)) {
            let others: Vec<usize> = (0..conns.len()).filter(|j| *j != pi && *j != si).collect();
            if !others.is_empty() {
                let sharing: Vec<usize> = others.iter().cloned().filter(|j| (conns[*j].client.ip == conns[pi].server.ip && conns[*j].server.ip == conns[pi].client.ip) || (conns[*j].client.ip == conns[pi].client.ip && conns[*j].server.ip == conns[pi].server.ip)).collect();
                let vi = if !sharing.is_empty() && r.chance(3, 4) { *r.pick(&sharing) } else { *r.pick(&others) };
                let v_first_data = conns[vi].steps.iter().position(|st| st.seg.src == conns[vi].client && !st.seg.payload.is_empty()).map(|p| p + 1).unwrap_or(conns[vi].steps.len().min(3));
                let mut head: Vec<usize> = std::iter::repeat(pi).take(conns[pi].steps.len()).collect();
                head.extend(std::iter::repeat(vi).take(v_first_data));
                head.push(si);
                let mut remaining: Vec<usize> = vec![0; conns.len()];
                for (j, c) in conns.iter().enumerate() {
                    remaining[j] = c.steps.len();
                }
                for j in &head {
                    remaining[*j] -= 1;
                }
                let mut tail = vec![];
                while remaining.iter().any(|x| *x > 0) {
                    let live: Vec<usize> = (0..conns.len()).filter(|j| remaining[*j] > 0).collect();
                    let j = *r.pick(&live);
                    remaining[j] -= 1;
                    tail.push(j);
                }
                head.extend(tail);
                order = head;
            }
        }
        let boundaries = boundaries.into_iter().map(|b: usize| b.min(order.len())).collect();
        // exact capacity (HTTP analyzer, one scenario in four): one table entry per pair of endpoints is all a correct
        // analyzer ever needs - flows are opened by SYNs only and a reused 4-tuple replaces its earlier entry
        let mut pairs = std::collections::BTreeSet::new();
        for c in &conns {
            let (a, b) = ((c.client.ip, c.client.port), (c.server.ip, c.server.port));
            pairs.insert(if a <= b { (a, b) } else { (b, a) });
        }
        let cap = if kind == Kind::Http && r.chance(1, 4) { pairs.len() } else { 2 * conns.len() + 4 + r.usize_below(50) };
        // fault, one TCP / unified scenario in six: one or two steps of the wall clock somewhere inside the trace
        let wall_jumps = if matches!(kind, Kind::Tcp | Kind::Unified) && r.chance(1, 6) {
            let tmax = conn::to_trace(&conns, &order).last().map(|p| p.t).unwrap_or(0).max(1);
            (0..r.urange(1, 2)).map(|_| (r.below(tmax), *r.pick(&[900_000i64, 3_600_000, 86_400_000, 1 << 32, (1 << 32) + 1000, -1_200_000, -30_000]))).collect()
        } else {
            vec![]
        };
        Scn { kind, cap, conns, order, via_loop, boundaries, wall_jumps }
    }

    fn run(s: &Scn, st: &mut RunStats) -> Result<(), Violation> {
        let cfg = SutCfg::new(s.kind, s.cap);
        let trace = conn::to_trace(&s.conns, &s.order);
        let outs = run_trace_jumps(&cfg, &trace, s.via_loop, &s.boundaries, &s.wall_jumps)?;
        for j in &s.wall_jumps {
            st.fault(if j.1 > 0 { "clock_jump_forward" } else { "clock_jump_backward" });
        }
        if s.via_loop && !s.boundaries.is_empty() {
            st.fault("capture_source_ends_and_restarts");
        }
        st.packets += trace.len() as u64;
        st.sim_ns += trace.last().map(|p| p.t).unwrap_or(0);
        let il = s.order.iter().fold(0u64, |h, c| crate::rng::mix64(h ^ *c as u64));
        st.interleaving = Some(il);
        st.ev_u64(il);
        let switches = s.order.windows(2).filter(|w| w[0] != w[1]).count();
        st.fault_n("interleave_switch", switches as u64);
        if s.conns.iter().any(|c| c.kind == ConnKind::Http2Hostile) {
            st.fault("hostile_http2_header_block");
        }
        if s.conns.iter().any(|c| c.kind == ConnKind::Garbage) {
            st.fault("garbage_connection");
        }
        if s.conns.iter().enumerate().any(|(i, c)| s.conns[..i].iter().any(|p| p.client == c.client && p.server == c.server)) {
            st.fault("four_tuple_reused_by_a_later_connection");
        }
        if s.conns.iter().enumerate().any(|(i, c)| s.conns[..i].iter().any(|p| p.client == c.server && p.server == c.client)) {
            st.fault("four_tuple_reused_with_swapped_roles");
        }
        if s.conns.iter().any(|c| c.steps.iter().any(|x| x.dt_ns >= 20_000_000_000)) {
            st.fault("idle_beyond_a_flow_ttl");
        }
        let mut producing = 0;
        for ci in 0..s.conns.len() {
            let iso: Vec<Timed> = trace.iter().filter(|p| p.conn == ci).cloned().collect();
            if iso.is_empty() {
                continue;
            }
            let iso_out = run_trace_jumps(&cfg, &iso, false, &[], &s.wall_jumps)?;
            st.packets += iso.len() as u64;
            let mixed: Vec<&sut::PktOut> = trace.iter().zip(outs.iter()).filter(|(p, _)| p.conn == ci).map(|(_, o)| o).collect();
            let mut any = false;
            for (k, (m, i)) in mixed.iter().zip(iso_out.iter()).enumerate() {
                for ob in &i.obs {
                    st.ev(&ob.text);
                    any = true;
                }
                if m.obs != i.obs {
                    // classify by what differs
                    let kinds_m: Vec<&str> = m.obs.iter().map(|o| o.kind.as_str()).collect();
                    let kinds_i: Vec<&str> = i.obs.iter().map(|o| o.kind.as_str()).collect();
                    let (class, what) = if kinds_m.len() < kinds_i.len() {
                        ("suppressed", kinds_i.iter().find(|k| !kinds_m.contains(k)).cloned().unwrap_or("?"))
                    } else if kinds_m.len() > kinds_i.len() {
                        ("leaked", kinds_m.iter().find(|k| !kinds_i.contains(k)).cloned().unwrap_or("?"))
                    } else {
                        ("altered", kinds_i.first().cloned().unwrap_or("?"))
                    };
                    let mut others: Vec<String> = s.conns.iter().enumerate().filter(|(j, _)| *j != ci).take(9).map(|(_, c)| format!("{:?}", c.kind)).collect();
                    if s.conns.len() > 10 {
                        others.push(format!("... {} connections in all", s.conns.len()));
                    }
                    let hostile = s.conns.iter().any(|c| c.kind == ConnKind::Http2Hostile);
                    let key = format!("{}:{}{}", s.kind.name(), what, if hostile && what.starts_with("http") && s.conns[ci].kind == ConnKind::Http2 { ":h2-after-hostile-hpack" } else { "" });
                    return Err(Violation::new(
                        class,
                        key,
                        format!(
                            "connection {} ({:?} {}->{}) packet {}: with other traffic {:?} reports [{}], alone it reports [{}]",
                            ci,
                            s.conns[ci].kind,
                            sut::endpoints_of(&s.conns[ci].client),
                            sut::endpoints_of(&s.conns[ci].server),
                            k,
                            others,
                            m.obs.iter().map(|o| o.short()).collect::<Vec<_>>().join(" | "),
                            i.obs.iter().map(|o| o.short()).collect::<Vec<_>>().join(" | ")
                        ),
                    ));
                }
            }
            if any {
                producing += 1;
            }
        }
        st.probe_n("connections_producing_results", producing);
        let pairs: std::collections::BTreeSet<_> = s
            .conns
            .iter()
            .map(|c| {
                let (a, b) = ((c.client.ip, c.client.port), (c.server.ip, c.server.port));
                if a <= b { (a, b) } else { (b, a) }
            })
            .collect();
        if s.cap == pairs.len() {
            st.fault("flow_table_exactly_as_large_as_the_number_of_endpoint_pairs");
        } else if s.cap < s.conns.len() {
            st.fault("staggered_expiry_under_exact_capacity");
        }
        if s.conns.len() >= 1000 {
            st.fault_n("population_of_simultaneously_open_connections", s.conns.len() as u64);
        }
        st.nontrivial = producing >= 2 && switches >= 2;
        Ok(())
    }

    fn shrink(s: &Scn) -> Vec<Scn> {
        let mut out = vec![];
        if !s.wall_jumps.is_empty() {
            let mut x = s.clone();
            x.wall_jumps.clear();
            out.push(x);
        }
        let drop_set = |s: &Scn, gone: &dyn Fn(usize) -> bool| -> Scn {
            let mut x = s.clone();
            let mut map = vec![usize::MAX; s.conns.len()];
            let mut k = 0;
            for i in 0..s.conns.len() {
                if !gone(i) {
                    map[i] = k;
                    k += 1;
                }
            }
            x.conns = s.conns.iter().enumerate().filter(|(i, _)| !gone(*i)).map(|(_, c)| c.clone()).collect();
            x.order = s.order.iter().filter(|c| map[**c] != usize::MAX).map(|c| map[*c]).collect();
            x
        };
        if s.conns.len() > 24 {
            // a population: drop an eighth of the connections at a time
            let n = s.conns.len();
            for k in 0..8 {
                out.push(drop_set(s, &|i| i * 8 / n == k));
            }
            return out;
        }
        // drop one connection
        if s.conns.len() > 2 {
            for i in (0..s.conns.len()).rev() {
                let mut x = s.clone();
                x.conns.remove(i);
                x.order = x.order.iter().filter(|c| **c != i).map(|c| if *c > i { *c - 1 } else { *c }).collect();
                out.push(x);
            }
        }
        // sequential order (connection 0 first, then 1, ...)
        {
            let mut x = s.clone();
            let mut o = vec![];
            for (i, c) in x.conns.iter().enumerate() {
                o.extend(std::iter::repeat(i).take(c.steps.len()));
            }
            if o != x.order {
                x.order = o;
                out.push(x);
            }
        }
        // drop trailing packets of a connection
        for i in 0..s.conns.len() {
            if s.conns[i].steps.len() > 1 {
                let mut x = s.clone();
                x.conns[i].steps.pop();
                // remove the last occurrence of i in the order
                if let Some(p) = x.order.iter().rposition(|c| *c == i) {
                    x.order.remove(p);
                }
                out.push(x);
            }
        }
        if !s.boundaries.is_empty() {
            let mut x = s.clone();
            x.boundaries.clear();
            out.push(x);
        }
        if s.via_loop {
            let mut x = s.clone();
            x.via_loop = false;
            x.boundaries.clear();
            out.push(x);
        }
        out
    }
}
