//! C08 — TLS ClientHello reassembly is segmentation-invariant and reports exactly once.
//!
//! Simulated clients send a TLS record stream (a ClientHello record, or a record that is not one,
//! followed by whatever a client sends next); the tap cuts each stream into in-order TCP segments
//! (first segment >= 5 bytes) and interleaves the segments of several flows.  The history of
//! return values is checked against the generator's knowledge of where the record ends.

use crate::gen::tls;
use crate::pkt::{self, Endpoint, Framing, Seg};
use crate::rng::Rng;
use crate::runner::{Prop, RunStats, Tier, Violation};
use crate::sut::{self, Kind, SutCfg, Timed};
use huginn_net_verif_rt::clock;
use serde::{Deserialize, Serialize};

#[derive(Clone, Copy, Debug, PartialEq, Eq, Serialize, Deserialize)]
pub enum Path {
    /// `TlsClientHelloReader::add_bytes` directly
    Reader,
    /// TCP frames through `HuginnNetTls` per-packet path (H3)
    Packet,
    /// TCP frames through the repository's sequential packet loop (H3 `verif_process_with`)
    PacketLoop,
}

#[derive(Clone, Debug, Serialize, Deserialize)]
pub struct Flow {
    pub src: Endpoint,
    pub dst: Endpoint,
    pub isn: u32,
    /// first record followed by trailing bytes
    #[serde(with = "crate::pkt::hexser")]
    pub stream: Vec<u8>,
    /// 5 + declared length of the first record (generator's knowledge)
    pub record_total: usize,
    /// cut offsets into `stream`, strictly increasing, first >= 5
    pub cuts: Vec<usize>,
    /// offsets inside the record where the tap planted bytes that look like a record header
    #[serde(default)]
    pub hot: Vec<usize>,
    /// non-zero: TCP/IP header fields without bearing on the byte stream vary per segment (seeded by this)
    #[serde(default)]
    pub hdr_noise: u64,
    /// captured on the wire: frames shorter than the 60-byte Ethernet minimum are zero-padded
    #[serde(default)]
    pub wire: bool,
    /// how the connection opens in the capture: 0 = handshake not captured, 1 = a bare SYN, 2 = a SYN that carries
    /// `preamble` (TCP Fast Open)
    #[serde(default)]
    pub opener: u8,
    /// cleartext the client sends in front of its TLS handshake (PROXY protocol line, CONNECT, STARTTLS dialogue):
    /// on the SYN (opener 2) or as the first data segment; never the start of a TLS record
    #[serde(default, with = "crate::pkt::hexser")]
    pub preamble: Vec<u8>,
    /// this flow reuses the 4-tuple of that earlier flow (port reuse) and starts after it has ended
    #[serde(default)]
    pub reuses: Option<usize>,
}

#[derive(Clone, Debug, Serialize, Deserialize)]
pub struct Scn {
    pub path: Path,
    pub framing: Framing,
    pub cap: usize,
    pub flows: Vec<Flow>,
    /// delivery order: sequence of flow indices, one entry per segment
    pub order: Vec<usize>,
    /// additional cut sets for flow 0, each evaluated as its own delivery history
    pub alt_cuts: Vec<Vec<usize>>,
    /// simulated gap between deliveries (ns)
    pub gap_ns: u64,
}

pub struct C08;

fn segments(stream: &[u8], cuts: &[usize]) -> Vec<(usize, usize)> {
    let mut v = vec![];
    let mut a = 0;
    for &c in cuts {
        if c > a && c < stream.len() {
            v.push((a, c));
            a = c;
        }
    }
    v.push((a, stream.len()));
    v
}

fn frame_of(f: &Flow, a: usize, b: usize, framing: Framing) -> Vec<u8> {
    let mut s = Seg::new(f.src, f.dst);
    s.seq = f.isn.wrapping_add(1).wrapping_add(f.preamble.len() as u32).wrapping_add(a as u32);
    s.ack = 1;
    s.flags = pkt::ACK | pkt::PSH;
    s.payload = f.stream[a..b].to_vec();
    if f.wire {
        s.trailer = 1;
    }
    if f.hdr_noise != 0 {
        // TCP / IP header fields that have no bearing on the byte stream vary from segment to segment:
        // urgent flag and pointer (inside, at the end of, beyond the segment, or zero), ECN bits, window,
        // options, TTL, ToS
        let mut r = Rng::new(f.hdr_noise ^ crate::rng::mix64(a as u64 + 1));
        let n = s.payload.len().max(1) as u64;
        if r.chance(1, 2) {
            s.flags |= 0x20;
            s.urg_ptr = match r.below(5) {
                0 => 1,
                1 => 1 + r.below(n) as u16,
                2 => n as u16,
                3 => (n as u16).wrapping_add(1 + r.below(50) as u16),
                _ => 0,
            };
        } else if r.chance(1, 3) {
            s.urg_ptr = 1 + r.below(n) as u16; // pointer without the flag
        }
        if r.chance(1, 3) {
            s.flags |= *r.pick(&[0x40u8, 0x80, 0xc0]);
        }
        s.window = r.u16();
        // the flag bits of a data segment are the sender's business: without ACK (PSH alone, FIN|PSH, none at all),
        // with FIN on any segment
        match r.below(8) {
            0 => s.flags &= !pkt::ACK,
            1 => s.flags = (s.flags & !pkt::ACK) | pkt::FIN,
            2 => s.flags = s.flags & 0xe0,
            3 => s.flags |= pkt::FIN,
            _ => {}
        }
        if r.chance(1, 2) {
            s.tcp_opts = vec![1, 1, 8, 10, r.u8(), r.u8(), r.u8(), r.u8(), 0, 0, 0, 1];
        }
        s.ttl = 1 + r.below(255) as u8;
        s.tos = r.u8() & 0xfc;
    }
    pkt::frame(&s, framing)
}

/// the frames in front of the record stream: the SYN (with or without the preamble) and the preamble segment
fn opening_frames(f: &Flow, framing: Framing) -> Vec<Vec<u8>> {
    let mut v = vec![];
    if f.opener > 0 {
        let mut s = Seg::new(f.src, f.dst);
        s.seq = f.isn;
        s.flags = pkt::SYN;
        s.tcp_opts = vec![2, 4, 5, 0xb4];
        if f.opener == 2 {
            s.payload = f.preamble.clone();
        }
        v.push(pkt::frame(&s, framing));
    }
    if f.opener != 2 && !f.preamble.is_empty() {
        let mut s = Seg::new(f.src, f.dst);
        s.seq = f.isn.wrapping_add(1);
        s.ack = 1;
        s.flags = pkt::ACK | pkt::PSH;
        s.payload = f.preamble.clone();
        v.push(pkt::frame(&s, framing));
    }
    v
}

/// expected signature text for a stream: what a fresh reader reports for the first record alone
fn reference_reader(stream: &[u8], record_total: usize) -> Option<String> {
    let rec = &stream[..record_total.min(stream.len())];
    if rec.len() < record_total {
        return None; // record never completes
    }
    let mut rd = huginn_net_tls::TlsClientHelloReader::new();
    match rd.add_bytes(rec) {
        Ok(Some(sig)) => Some(format!("{:?}", sig)),
        _ => None,
    }
}

fn check_reader(f: &Flow, cuts: &[usize], st: &mut RunStats) -> Result<(), Violation> {
    let expect = reference_reader(&f.stream, f.record_total);
    let segs = segments(&f.stream, cuts);
    let mut rd = huginn_net_tls::TlsClientHelloReader::new();
    let mut got: Vec<(usize, String)> = vec![];
    let mut maxseg = 0;
    for (k, (a, b)) in segs.iter().enumerate() {
        maxseg = maxseg.max(b - a);
        let r = rd.add_bytes(&f.stream[*a..*b]);
        st.packets += 1;
        match r {
            Ok(Some(sig)) => {
                let t = format!("{:?}", sig);
                st.ev(&t);
                got.push((k, t));
            }
            Ok(None) => st.ev("none"),
            Err(_) => st.ev("err"),
        }
        // Not part of C08's statement (it was an extra invariant of the first design and alarmed on a
        // reader that keeps an unparseable > 16 KiB record after returning Err): recorded as a probe only.
        if rd.buffer_len() > 64 * 1024 + 5 + maxseg {
            st.probe("reader_keeps_more_than_64KiB_after_a_parse_error");
        }
    }
    verdict("reader", &segs, f.record_total, expect, got, st)
}

fn ends(segs: &[(usize, usize)]) -> String {
    let v: Vec<String> = segs.iter().take(16).map(|s| s.1.to_string()).collect();
    format!("[{}{}]", v.join(","), if segs.len() > 16 { format!(",…(+{})", segs.len() - 16) } else { String::new() })
}

fn verdict(key: &str, segs: &[(usize, usize)], record_total: usize, expect: Option<String>, got: Vec<(usize, String)>, st: &mut RunStats) -> Result<(), Violation> {
    // index of the segment that delivers the byte completing the record
    let completing = segs.iter().position(|(_, b)| *b >= record_total);
    match (&expect, completing) {
        (Some(e), Some(kc)) => {
            st.probe("hello_expected");
            if segs.len() > 1 {
                st.nontrivial = true;
            }
            if got.is_empty() {
                return Err(Violation::new("missing", key, format!("no result although the record completed on segment {} of {}; segment ends {}", kc, segs.len(), ends(segs))));
            }
            if got.len() > 1 {
                return Err(Violation::new("duplicate-report", key, format!("{} results for one ClientHello (segments {:?})", got.len(), got.iter().map(|g| g.0).collect::<Vec<_>>())));
            }
            let (k, t) = &got[0];
            if *k != kc {
                let class = if *k < kc { "early" } else { "late" };
                return Err(Violation::new(class, key, format!("result on segment {} but the record completes on segment {} (record_total={}, segment ends {})", k, kc, record_total, ends(segs))));
            }
            if t != e {
                return Err(Violation::new("segmentation", key, format!("reassembled result differs from the one-segment result\n  one-segment: {}\n  reassembled: {}", e, t)));
            }
            Ok(())
        }
        _ => {
            st.probe("no_hello_expected");
            if let Some((k, t)) = got.first() {
                return Err(Violation::new("spurious", key, format!("result on segment {} although the stream holds no complete ClientHello record: {}", k, t)));
            }
            Ok(())
        }
    }
}

fn check_packets(scn: &Scn, cuts0: &[usize], st: &mut RunStats) -> Result<(), Violation> {
    // build the interleaved trace
    let nfl = scn.flows.len();
    let mut segs: Vec<Vec<(usize, usize)>> = vec![];
    for (i, f) in scn.flows.iter().enumerate() {
        segs.push(segments(&f.stream, if i == 0 { cuts0 } else { &f.cuts }));
    }
    let mut next = vec![0usize; nfl];
    let mut trace: Vec<Timed> = vec![];
    let mut owner: Vec<(usize, usize)> = vec![]; // (flow, segment index)
    let mut t = 0u64;
    let mut il = 0u64;
    let push = |fi: usize, next: &mut Vec<usize>, trace: &mut Vec<Timed>, owner: &mut Vec<(usize, usize)>, t: &mut u64| {
        let k = next[fi];
        if k == 0 {
            for fr in opening_frames(&scn.flows[fi], scn.framing) {
                trace.push(Timed { t: *t, frame: fr, conn: fi });
                owner.push((fi, usize::MAX));
                *t += scn.gap_ns;
            }
        }
        if k < segs[fi].len() {
            let (a, b) = segs[fi][k];
            trace.push(Timed { t: *t, frame: frame_of(&scn.flows[fi], a, b, scn.framing), conn: fi });
            owner.push((fi, k));
            next[fi] += 1;
            *t += scn.gap_ns;
        }
    };
    for &fi in &scn.order {
        // a flow that reuses a 4-tuple starts after everything else (the loop below), its predecessor included
        if fi < nfl && scn.flows[fi].reuses.is_none() {
            il = crate::rng::mix64(il ^ fi as u64);
            push(fi, &mut next, &mut trace, &mut owner, &mut t);
        }
    }
    for fi in 0..nfl {
        while next[fi] < segs[fi].len() {
            push(fi, &mut next, &mut trace, &mut owner, &mut t);
        }
    }
    st.interleaving = Some(il);
    st.sim_ns += t;
    st.packets += trace.len() as u64;
    if scn.flows.iter().any(|f| f.reuses.is_some()) {
        st.fault("four_tuple_reused_by_a_later_connection");
    }
    if scn.flows.iter().any(|f| !f.preamble.is_empty()) {
        st.fault("cleartext_in_front_of_the_handshake");
    }

    let cfg = SutCfg::new(Kind::Tls, scn.cap);
    clock::arm(1_700_000_000_000);
    let outs = match scn.path {
        Path::Packet => sut::run_deliver(&cfg, &trace),
        #[cfg(not(huginn_net_verif_sched))]
        Path::PacketLoop => sut::run_loop(&cfg, &trace),
        #[cfg(huginn_net_verif_sched)]
        Path::PacketLoop => sut::run_deliver(&cfg, &trace),
        Path::Reader => unreachable!(),
    }
    .map_err(|e| Violation::new("harness-error", "", e))?;

    for (fi, f) in scn.flows.iter().enumerate() {
        // reference: the first record alone in one segment on a fresh analyzer
        let expect = if f.stream.len() >= f.record_total && f.record_total <= 60000 {
            clock::arm(1_700_000_000_000);
            let one = vec![Timed { t: 0, frame: frame_of(f, 0, f.record_total, scn.framing), conn: fi }];
            let r = sut::run_deliver(&cfg, &one).map_err(|e| Violation::new("harness-error", "", e))?;
            r[0].obs.first().map(|o| o.text.clone())
        } else {
            // too large for one IP packet: take the reader's word and compare the signature part only
            reference_reader(&f.stream, f.record_total).map(|_| String::new())
        };
        let mut got = vec![];
        for (i, o) in outs.iter().enumerate() {
            if owner[i].0 != fi {
                continue;
            }
            for ob in &o.obs {
                st.ev(&ob.text);
                // attribution: the reported endpoints must be this flow's
                if ob.src != sut::endpoints_of(&f.src) || ob.dst != sut::endpoints_of(&f.dst) {
                    return Err(Violation::new("misattributed", "packet", format!("result on a segment of flow {} carries endpoints {}->{}", fi, ob.src, ob.dst)));
                }
                if owner[i].1 == usize::MAX {
                    return Err(Violation::new("spurious", "packet", format!("result on the SYN or the cleartext in front of the handshake of flow {}: {}", fi, ob.text)));
                }
                got.push((owner[i].1, ob.text.clone()));
            }
        }
        let expect_cmp = expect.clone();
        let got_cmp: Vec<(usize, String)> = if expect.as_deref() == Some("") { got.iter().map(|(k, _)| (*k, String::new())).collect() } else { got };
        verdict(if scn.path == Path::Packet { "packet" } else { "packet-loop" }, &segs[fi], f.record_total, expect_cmp, got_cmp, st)?;
    }
    Ok(())
}

/// Opaque fields of a ClientHello (client random, session id, padding) may legally contain any
/// bytes — including ones that look like the start of a TLS handshake record, or a whole
/// ClientHello record. Plant such bytes and remember where, so cuts can be placed exactly there.
fn plant_record_lookalikes(r: &mut Rng, rec: &mut Vec<u8>) -> Vec<usize> {
    let mut hot = vec![];
    let total = rec.len();
    if total < 60 {
        return hot;
    }
    // what is planted: the start of a handshake record, or a whole small record of another content type
    // (ChangeCipherSpec, alert, the header of an application-data or heartbeat record)
    let lookalike = |r: &mut Rng, short_len: bool| -> Vec<u8> {
        let v = r.below(5) as u8;
        match r.below(6) {
            0 | 1 | 2 => vec![0x16, 0x03, v, if short_len { 0 } else { r.u8() }, if short_len { r.below(40) as u8 } else { r.u8() }],
            3 => vec![0x14, 0x03, v, 0x00, 0x01, 0x01],
            4 => vec![0x15, 0x03, v, 0x00, 0x02, *r.pick(&[1u8, 2]), *r.pick(&[0u8, 40, 70])],
            _ => vec![*r.pick(&[0x17u8, 0x18]), 0x03, v, 0x00, r.below(64) as u8],
        }
    };
    // client random: record header (5) + handshake header (4) + version (2) = offset 11, 32 bytes
    if r.chance(2, 3) {
        let pat = lookalike(r, false);
        let k = 11 + r.usize_below(32 - pat.len());
        rec[k..k + pat.len()].copy_from_slice(&pat);
        hot.push(k);
    }
    // ... or a copy of the record's own first bytes (record header, handshake header, version): a segment that
    // starts there and ends inside the copy repeats the start of what has been delivered so far
    if r.chance(1, 4) {
        let k = r.urange(5, 12);
        let at = 11 + r.usize_below(32 - k);
        let own: Vec<u8> = rec[..k].to_vec();
        rec[at..at + k].copy_from_slice(&own);
        hot.push(at);
        hot.push(at + r.urange(5, k));
    }
    // session id (if present): offset 44, 32 bytes
    if rec[43] == 32 && r.chance(1, 2) {
        let pat = lookalike(r, true);
        let k = if r.chance(1, 3) { 44 } else { 44 + r.usize_below(32 - pat.len()) };
        rec[k..k + pat.len()].copy_from_slice(&pat);
        hot.push(k);
    }
    // padding extension: a trailing run of zeros; plant a whole small ClientHello record in it
    let zeros = rec.iter().rev().take_while(|b| **b == 0).count();
    if zeros > 200 && r.chance(2, 3) {
        let mut spec = tls::random_spec(r, 150);
        spec.target_len = 0;
        spec.n_ciphers = spec.n_ciphers.min(6);
        spec.n_ext_extra = spec.n_ext_extra.min(2);
        let inner = tls::client_hello(r, &spec);
        if inner.len() + 8 < zeros {
            let k = total - zeros + 4 + r.usize_below(zeros - inner.len() - 8);
            rec[k..k + inner.len()].copy_from_slice(&inner);
            hot.push(k);
        }
    }
    hot.sort();
    hot
}

fn gen_stream(r: &mut Rng, tier: Tier, small: bool) -> (Vec<u8>, usize) {
    let (s, t, _) = gen_stream_hot(r, tier, small);
    (s, t)
}

fn gen_stream_hot(r: &mut Rng, tier: Tier, small: bool) -> (Vec<u8>, usize, Vec<usize>) {
    let (mut s, total) = gen_stream_plain(r, tier, small);
    let mut hot = vec![];
    if s.len() >= total && total > 80 && s[0] == 0x16 && s.get(5) == Some(&1) && r.chance(1, 2) {
        let mut rec = s[..total].to_vec();
        hot = plant_record_lookalikes(r, &mut rec);
        s[..total].copy_from_slice(&rec);
    }
    (s, total, hot)
}

fn gen_stream_plain(r: &mut Rng, tier: Tier, small: bool) -> (Vec<u8>, usize) {
    let kind = r.below(10);
    if kind < 7 {
        let max = if small { 600 } else { tier.pick(20000, 65535) };
        let mut spec = tls::random_spec(r, max);
        if small {
            spec.target_len = spec.target_len.min(600);
            spec.n_ciphers = spec.n_ciphers.min(20);
            spec.n_ext_extra = spec.n_ext_extra.min(5);
        }
        let rec = if r.chance(1, 20) { tls::tiny_hello(r) } else { tls::client_hello(r, &spec) };
        let total = rec.len();
        let mut s = rec;
        // (a second hello only behind a first one that a TLS stack accepts: records above 2^14 are not)
        s.extend_from_slice(&tls::trailing_opt(r, total <= 16000));
        (s, total)
    } else if kind < 9 && r.chance(1, 4) {
        // a handshake message that is not a ClientHello, fragmented over two records (RFC 5246 6.2.1 allows it), with a
        // complete ClientHello message behind its tail in the second record: the first record is not a ClientHello
        // record, so nothing is to be reported, however the bytes arrive
        let spec = tls::random_spec(r, 600);
        let hello = tls::client_hello(r, &HelloSpecPlain::plain(spec));
        let hello_msg = hello[5..].to_vec();
        let total_len = r.urange(40, 300);
        let in_first = r.urange(1, total_len - 1);
        // (0xff bytes: a tail that can never be read as a run of well-formed handshake messages by coincidence)
        let body = vec![0xffu8; total_len];
        let mut m1 = vec![*r.pick(&[20u8, 11, 2, 16, 4]), 0];
        m1.extend_from_slice(&(total_len as u16).to_be_bytes());
        m1.extend_from_slice(&body[..in_first]);
        let rec1 = tls::record(0x16, 0x0303, &m1);
        let mut m2 = body[in_first..].to_vec();
        m2.extend_from_slice(&hello_msg);
        let rec2 = tls::record(0x16, 0x0303, &m2);
        let total = rec1.len();
        let mut s = rec1;
        s.extend_from_slice(&rec2);
        (s, total)
    } else if kind < 9 {
        // a handshake record that is not a ClientHello
        let rec = tls::non_hello_handshake(r);
        let total = rec.len();
        let mut s = rec;
        s.extend_from_slice(&tls::trailing(r));
        (s, total)
    } else {
        // a handshake header declaring more than ever arrives
        let n = r.urange(50, 400);
        let mut s = vec![0x16, 3, 1, 0xff, 0xf0];
        s.extend_from_slice(&r.bytes(n));
        (s, 5 + 0xfff0)
    }
}

/// a hello spec without messages coalesced in front (the hello must start its record)
struct HelloSpecPlain;
impl HelloSpecPlain {
    fn plain(mut s: tls::HelloSpec) -> tls::HelloSpec {
        s.coalesced_before = 0;
        s.exact_body = None;
        s.target_len = s.target_len.min(600);
        s
    }
}

fn gen_cuts_hot(r: &mut Rng, len: usize, record_total: usize, hot: &[usize]) -> Vec<usize> {
    if !hot.is_empty() && r.chance(1, 2) {
        // cut exactly where planted bytes look like the start of a record
        let mut c: Vec<usize> = hot.iter().filter(|_| r.chance(2, 3)).cloned().collect();
        if c.is_empty() {
            c.push(hot[0]);
        }
        if r.chance(1, 3) {
            c.extend(gen_cuts(r, len, record_total));
        }
        c.sort();
        c.dedup();
        c.retain(|x| *x >= 5 && *x < len);
        st_probe_hot();
        return c;
    }
    gen_cuts(r, len, record_total)
}

fn st_probe_hot() {}

/// what a client may send in clear before its TLS handshake; never something that starts like a TLS record
fn gen_preamble(r: &mut Rng) -> Vec<u8> {
    match r.below(6) {
        0 => format!("PROXY TCP4 192.0.2.{} 203.0.113.{} {} 443\r\n", r.below(250), r.below(250), 1024 + r.below(60000)).into_bytes(),
        1 => format!("CONNECT host{}.example:443 HTTP/1.1\r\nHost: host.example:443\r\n\r\n", r.below(100)).into_bytes(),
        2 => b"STARTTLS\r\n".to_vec(),
        3 => b"PROXY UNKNOWN\r\n".to_vec(),
        4 => (0..r.urange(1, 4)).map(|_| b'a' + r.below(26) as u8).collect(),
        _ => {
            // PROXY protocol v2 binary header
            let mut v = vec![0x0d, 0x0a, 0x0d, 0x0a, 0x00, 0x0d, 0x0a, 0x51, 0x55, 0x49, 0x54, 0x0a, 0x21, 0x11, 0x00, 0x0c];
            v.extend(r.bytes(12));
            v
        }
    }
}

fn gen_cuts(r: &mut Rng, len: usize, record_total: usize) -> Vec<usize> {
    if len <= 6 {
        return vec![];
    }
    let mut cuts: Vec<usize> = match r.below(6) {
        0 => vec![],
        1 => vec![r.urange(5, len - 1)],
        2 => {
            // around the interesting offsets
            let c = *r.pick(&[5usize, 6, 9, 10, record_total.saturating_sub(1), record_total, record_total + 1, 43, 44]);
            vec![c]
        }
        3 => {
            // mss-like equal pieces
            let m = *r.pick(&[536usize, 1200, 1360, 1448, 1460, 100, 17]);
            (1..).map(|k| k * m).take_while(|c| *c < len).collect()
        }
        4 => {
            // long tail of one-byte segments at the end of the record
            let k = r.urange(1, 12);
            let mut v: Vec<usize> = (0..k).map(|j| record_total.saturating_sub(j)).filter(|c| *c > 5 && *c < len).collect();
            v.push(r.urange(5, len - 1));
            v
        }
        _ => {
            let parts = r.urange(2, 12);
            r.cuts(len, parts)
        }
    };
    cuts.sort();
    cuts.dedup();
    cuts.retain(|c| *c >= 5 && *c < len);
    cuts
}

impl Prop for C08 {
    type Scn = Scn;
    const ID: &'static str = "C08";
    const ENGINE: &'static str = crate::NETSIM_ENGINE;

    fn rule() -> &'static str {
        "one evaluation = one delivery history (a record stream cut into in-order segments, possibly interleaved with other flows) through the reader API, the per-packet path or the sequential packet loop of HuginnNetTls; non-trivial = the stream holds a complete ClientHello AND is delivered in >= 2 segments; distinct = distinct event-log hash (cuts, results)"
    }

    fn runs(tier: Tier) -> u64 {
        tier.pick(30_000, 1_000_000)
    }

    fn generate(r: &mut Rng, tier: Tier, _idx: u64) -> Scn {
        let path = match r.below(5) {
            0 | 1 => Path::Reader,
            2 | 3 => Path::Packet,
            _ => Path::PacketLoop,
        };
        let v6 = r.chance(1, 4);
        let framing = *r.pick(&[Framing::Ethernet, Framing::Ethernet, Framing::RawIp, Framing::Null1e]);
        let nflows = if path == Path::Reader { 1 } else { r.urange(1, 4) };
        let mut flows = vec![];
        for i in 0..nflows {
            let (stream, record_total, hot) = gen_stream_hot(r, tier, false);
            // packet path: keep streams within what IP can carry per segment after cutting
            let cport = 40000 + r.below(20) as u16;
            let (src, dst) = if v6 { (Endpoint::v6(1 + (i as u16 % 2), cport), Endpoint::v6(0x100, 443)) } else { (Endpoint::v4(10, 0, 0, 1 + (i as u8 % 2), cport), Endpoint::v4(10, 0, 1, 1, 443)) };
            // one flow in four runs in the reverse direction of flow 0 (directed keys must not mix)
            let (src, dst) = if i > 0 && r.chance(1, 4) { (flows_first_dst(&flows), flows_first_src(&flows)) } else { (src, dst) };
            let mut cuts = gen_cuts_hot(r, stream.len(), record_total, &hot);
            if path != Path::Reader {
                force_mtu(&mut cuts, stream.len());
            }
            let hdr_noise = if r.chance(1, 4) { r.next_u64() | 1 } else { 0 };
            let wire = r.chance(1, 3);
            let opener = if path != Path::Reader && r.chance(1, 3) { 1 + r.below(2) as u8 } else { 0 };
            let preamble = if path != Path::Reader && (opener == 2 || r.chance(1, 8)) { gen_preamble(r) } else { vec![] };
            flows.push(Flow { src, dst, isn: r.u32(), stream, record_total, cuts, hot, hdr_noise, wire, opener, preamble, reuses: None });
        }
        // distinct 4-tuples
        dedup_tuples(&mut flows);
        // port reuse: one more connection on the 4-tuple of an earlier one, opened by a SYN after that one has ended
        // (or has stopped half-way through its record)
        if path != Path::Reader && r.chance(1, 5) {
            let pi = r.usize_below(flows.len());
            let (stream, record_total, hot) = gen_stream_hot(r, tier, false);
            let mut cuts = gen_cuts_hot(r, stream.len(), record_total, &hot);
            force_mtu(&mut cuts, stream.len());
            let opener = 1 + r.below(2) as u8;
            let preamble = if opener == 2 || r.chance(1, 4) { gen_preamble(r) } else { vec![] };
            let isn = if r.chance(1, 6) { flows[pi].isn } else { r.u32() };
            flows.push(Flow { src: flows[pi].src, dst: flows[pi].dst, isn, stream, record_total, cuts, hot, hdr_noise: 0, wire: false, opener, preamble, reuses: Some(pi) });
        }
        let total_segs: usize = flows.iter().map(|f| f.cuts.len() + 1).sum();
        let order: Vec<usize> = (0..total_segs * 2).map(|_| r.usize_below(flows.len())).collect();
        let n_alt = tier.pick(6, 12);
        let mut alt_cuts = vec![];
        for _ in 0..n_alt {
            let hot0 = flows[0].hot.clone();
            let mut c = gen_cuts_hot(r, flows[0].stream.len(), flows[0].record_total, &hot0);
            if path != Path::Reader {
                force_mtu(&mut c, flows[0].stream.len());
            }
            alt_cuts.push(c);
        }
        // The statement quantifies over divisions, not over time: keep every delivery history well
        // inside the 20 s per-flow TTL (C11's mechanism) so that expiry can never explain a miss.
        let max_segs: u64 = flows.iter().map(|f| f.cuts.len() as u64 + 1).sum::<u64>().max(alt_cuts.iter().map(|c| c.len() as u64 + 1).max().unwrap_or(1) + flows.iter().skip(1).map(|f| f.cuts.len() as u64 + 1).sum::<u64>());
        let gap = (*r.pick(&[1_000u64, 1_000_000, 50_000_000])).min(10_000_000_000 / max_segs.max(1));
        Scn { path, framing, cap: *r.pick(&[8usize, 64, 1000]), flows, order, alt_cuts, gap_ns: gap }
    }

    fn systematic(tier: Tier) -> Vec<Scn> {
        // every single cut position (and, for short hellos, every pair) of a few fixed hellos
        let mut out = vec![];
        let n_hellos = tier.pick(2, 24);
        for h in 0..n_hellos {
            let mut r = Rng::new(0xC08_0000 + h as u64);
            let (stream, record_total) = loop {
                let (s, t) = gen_stream(&mut r, tier, true);
                if s.len() <= 700 && s.len() >= t {
                    break (s, t);
                }
            };
            let len = stream.len();
            for (pi, path) in [Path::Reader, Path::Packet].iter().enumerate() {
                if tier == Tier::Quick && pi == 1 && h > 0 {
                    continue;
                }
                let flow = Flow { src: Endpoint::v4(10, 9, 0, 1, 50000), dst: Endpoint::v4(10, 9, 1, 1, 443), isn: 0xffff_ff00, stream: stream.clone(), record_total, cuts: vec![], hot: vec![], hdr_noise: 0, wire: false, opener: 0, preamble: vec![], reuses: None };
                let mut alt: Vec<Vec<usize>> = (5..len).map(|c| vec![c]).collect();
                if len <= 300 && tier == Tier::Thorough && h < 6 {
                    for a in 5..len {
                        for b in (a + 1)..len {
                            alt.push(vec![a, b]);
                        }
                    }
                }
                for chunk in alt.chunks(512) {
                    out.push(Scn { path: *path, framing: Framing::Ethernet, cap: 16, flows: vec![flow.clone()], order: vec![], alt_cuts: chunk.to_vec(), gap_ns: 1000 });
                }
            }
        }
        out
    }

    fn run(scn: &Scn, st: &mut RunStats) -> Result<(), Violation> {
        if scn.flows.is_empty() {
            return Ok(());
        }
        let mut all: Vec<&Vec<usize>> = vec![&scn.flows[0].cuts];
        all.extend(scn.alt_cuts.iter());
        st.evals = 0;
        for cuts in all {
            st.evals += 1;
            st.ev_u64(cuts.len() as u64);
            for c in cuts {
                st.ev_u64(*c as u64);
                let rt = scn.flows[0].record_total;
                if *c > 5 && *c < 9 {
                    st.probe("cut_inside_handshake_header");
                }
                if *c + 1 == rt {
                    st.probe("cut_one_byte_before_record_end");
                }
                if *c == rt {
                    st.probe("cut_exactly_at_record_end");
                }
                if scn.flows[0].hot.contains(c) {
                    st.probe("cut_exactly_before_planted_record_header_lookalike");
                }
            }
            st.fault_n("segment_cut", cuts.len() as u64);
            match scn.path {
                Path::Reader => check_reader(&scn.flows[0], cuts, st)?,
                _ => {
                    if scn.flows.len() > 1 {
                        st.fault("interleave_other_flow");
                    }
                    check_packets(scn, cuts, st)?
                }
            }
        }
        Ok(())
    }

    fn shrink(scn: &Scn) -> Vec<Scn> {
        let mut out = vec![];
        if !scn.alt_cuts.is_empty() {
            // keep one cut set at a time as the primary
            for a in &scn.alt_cuts {
                let mut s = scn.clone();
                s.flows[0].cuts = a.clone();
                s.alt_cuts.clear();
                out.push(s);
            }
            let mut s = scn.clone();
            s.alt_cuts.clear();
            out.push(s);
        }
        if scn.flows.len() > 1 {
            for i in 1..scn.flows.len() {
                let mut s = scn.clone();
                s.flows.remove(i);
                s.order = s.order.iter().filter(|x| **x != i).map(|x| if *x > i { *x - 1 } else { *x }).collect();
                for f in s.flows.iter_mut() {
                    f.reuses = match f.reuses {
                        Some(p) if p == i => None,
                        Some(p) if p > i => Some(p - 1),
                        x => x,
                    };
                }
                out.push(s);
            }
        }
        for i in 0..scn.flows.len() {
            if !scn.flows[i].preamble.is_empty() || scn.flows[i].opener != 0 {
                let mut s = scn.clone();
                s.flows[i].preamble.clear();
                s.flows[i].opener = if scn.flows[i].reuses.is_some() { 1 } else { 0 };
                if s.flows[i].opener != scn.flows[i].opener || !scn.flows[i].preamble.is_empty() {
                    out.push(s);
                }
            }
        }
        if !scn.order.is_empty() {
            let mut s = scn.clone();
            s.order.clear();
            out.push(s);
        }
        for i in 0..scn.flows[0].cuts.len() {
            let mut s = scn.clone();
            s.flows[0].cuts.remove(i);
            out.push(s);
        }
        let f0 = &scn.flows[0];
        if f0.stream.len() > f0.record_total {
            let mut s = scn.clone();
            s.flows[0].stream.truncate(f0.record_total);
            s.flows[0].cuts.retain(|c| *c < f0.record_total);
            out.push(s);
        }
        if scn.framing != Framing::Ethernet {
            let mut s = scn.clone();
            s.framing = Framing::Ethernet;
            out.push(s);
        }
        out
    }
}

fn flows_first_src(f: &[Flow]) -> Endpoint {
    f[0].src
}
fn flows_first_dst(f: &[Flow]) -> Endpoint {
    f[0].dst
}

fn dedup_tuples(flows: &mut Vec<Flow>) {
    let mut seen = std::collections::BTreeSet::new();
    let mut bump = 0u16;
    for f in flows.iter_mut() {
        while !seen.insert((f.src, f.dst)) {
            bump += 1;
            if f.src.port >= 1024 {
                f.src.port = f.src.port.wrapping_add(100 + bump);
            } else {
                f.dst.port = f.dst.port.wrapping_add(100 + bump);
            }
        }
    }
}

/// no segment may exceed what one IP packet carries
fn force_mtu(cuts: &mut Vec<usize>, len: usize) {
    let max = 60000usize;
    let mut out: Vec<usize> = vec![];
    let mut prev = 0usize;
    let mut all = cuts.clone();
    all.push(len);
    for c in all {
        while c - prev > max {
            prev += max;
            out.push(prev);
        }
        if c < len {
            out.push(c);
        }
        prev = c;
    }
    out.sort();
    out.dedup();
    out.retain(|c| *c >= 5 && *c < len);
    *cuts = out;
}
