//! C09 — HTTP stream reassembly is invariant to segmentation, sequence origin and arrival order.
//!
//! A simulated client and server exchange an HTTP/1.x or HTTP/2 request and response.  The tap
//! decides how each direction's byte stream is cut into segments, which initial sequence numbers
//! are used (biased towards wrap-around inside the head), in which order the segments of each
//! direction arrive and how the two directions interleave.  The history of per-packet results is
//! compared with the in-order, one-segment-per-direction delivery of the same exchange.

use crate::gen::{http1, http2, tcp};
use crate::pkt::{self, Endpoint, Framing};
use crate::rng::Rng;
use crate::runner::{Prop, RunStats, Tier, Violation};
use crate::sut::{self, Kind, SutCfg, Timed};
use huginn_net_verif_rt::clock;
use serde::{Deserialize, Serialize};

#[derive(Clone, Debug, Serialize, Deserialize)]
pub struct Scn {
    pub kind: Kind,
    pub framing: Framing,
    pub cap: usize,
    pub client: Endpoint,
    pub server: Endpoint,
    pub isn_c: u32,
    pub isn_s: u32,
    pub h2: bool,
    #[serde(with = "crate::pkt::hexser")]
    pub req: Vec<u8>,
    /// bytes of the client stream that make up the complete request head (generator's knowledge)
    pub req_head_len: usize,
    #[serde(with = "crate::pkt::hexser")]
    pub resp: Vec<u8>,
    pub resp_head_len: usize,
    pub c_cuts: Vec<usize>,
    pub s_cuts: Vec<usize>,
    /// arrival order after SYN and SYN+ACK: (from_client, segment index)
    pub order: Vec<(bool, usize)>,
    pub gap_ns: u64,
    /// use the repository's sequential packet loop instead of the per-packet path
    pub via_loop: bool,
    /// the last data segment of the client / server stream carries FIN (half-close right after the message)
    #[serde(default)]
    pub fin_c: bool,
    #[serde(default)]
    pub fin_s: bool,
    /// fault: re-segmented retransmission — (from_client, segment index k, j): segment k is sent starting at the
    /// first byte of segment k-j, so it repeats the bytes of the j segments before it (sender coalesced them)
    #[serde(default)]
    pub extend_back: Vec<(bool, usize, usize)>,
    /// fault: retransmission of an arbitrary byte range — (from_client, a, b, position in the arrival order)
    #[serde(default)]
    pub extra: Vec<(bool, usize, usize, usize)>,
    /// fault: at this position of the arrival order the server side sends another SYN+ACK with this (other) initial
    /// sequence number - a SYN-cookie server or SYN proxy answering a retransmitted SYN; the connection goes on
    /// with the first one
    #[serde(default)]
    pub second_synack: Option<(usize, u32)>,
    /// the client's first segment rides on its SYN (TCP Fast Open); .1: the server's first segment rides on the SYN+ACK
    #[serde(default)]
    pub on_syn: (bool, bool),
}

pub struct C09;

fn segs(len: usize, cuts: &[usize]) -> Vec<(usize, usize)> {
    let mut v = vec![];
    let mut a = 0;
    for &c in cuts {
        if c > a && c < len {
            v.push((a, c));
            a = c;
        }
    }
    if len > a {
        v.push((a, len));
    }
    v
}

fn host() -> tcp::Host {
    tcp::Host { profile: 1, ts_hz: 0, ts_base: 0, ttl: 64 }
}

fn build_trace(s: &Scn, isn_c: u32, isn_s: u32, c_cuts: &[usize], s_cuts: &[usize], order: &[(bool, usize)]) -> (Vec<Timed>, Vec<(bool, usize, usize, usize)>) {
    let h = host();
    let mut trace = vec![];
    let mut meta = vec![]; // (from_client, seg idx, a, b) for data packets; usize::MAX for handshake
    let mut t = 0u64;
    let mut push = |seg: pkt::Seg, m: (bool, usize, usize, usize), trace: &mut Vec<Timed>, meta: &mut Vec<(bool, usize, usize, usize)>| {
        trace.push(Timed { t, frame: pkt::frame(&seg, s.framing), conn: 0 });
        meta.push(m);
        t += s.gap_ns;
    };
    let cs = segs(s.req.len(), c_cuts);
    let ss = segs(s.resp.len(), s_cuts);
    // data carried by a SYN segment starts one sequence number after the SYN's own
    {
        let mut syn = tcp::syn(&h, s.client, s.server, isn_c, 0);
        let mut m = (true, usize::MAX, 0, 0);
        if s.on_syn.0 {
            if let Some(&(a, b)) = cs.first() {
                syn.payload = s.req[a..b].to_vec();
                m = (true, 0, a, b);
            }
        }
        push(syn, m, &mut trace, &mut meta);
        let mut sa = tcp::syn_ack(&h, s.client, s.server, isn_s, isn_c, 0, 0);
        let mut m = (false, usize::MAX, 0, 0);
        if s.on_syn.1 {
            if let Some(&(a, b)) = ss.first() {
                sa.payload = s.resp[a..b].to_vec();
                m = (false, 0, a, b);
            }
        }
        push(sa, m, &mut trace, &mut meta);
    }
    let back = |fc: bool, k: usize, v: &[(usize, usize)]| -> usize {
        let j = s.extend_back.iter().filter(|e| e.0 == fc && e.1 == k).map(|e| e.2).max().unwrap_or(0);
        v[k.saturating_sub(j)].0
    };
    let extra_seg = |fc: bool, a: usize, b: usize| -> Option<pkt::Seg> {
        let (stream, from, to, isn_a, ack) = if fc { (&s.req, s.client, s.server, isn_c, isn_s.wrapping_add(1)) } else { (&s.resp, s.server, s.client, isn_s, isn_c.wrapping_add(1).wrapping_add(s.req.len() as u32)) };
        if a < b && b <= stream.len() {
            Some(tcp::data(&h, from, to, isn_a.wrapping_add(1).wrapping_add(a as u32), ack, stream[a..b].to_vec(), 0, 0, pkt::ACK | pkt::PSH))
        } else {
            None
        }
    };
    for (oi, &(fc, k)) in order.iter().enumerate() {
        if let Some((pos, isn2)) = s.second_synack {
            if pos == oi {
                push(tcp::syn_ack(&h, s.client, s.server, isn2, isn_c, 0, 0), (false, usize::MAX, 0, 0), &mut trace, &mut meta);
            }
        }
        for &(efc, a, b, pos) in &s.extra {
            if pos == oi {
                if let Some(seg) = extra_seg(efc, a, b) {
                    push(seg, (efc, usize::MAX - 1, a, b), &mut trace, &mut meta);
                }
            }
        }
        if (fc && k == 0 && s.on_syn.0) || (!fc && k == 0 && s.on_syn.1) {
            continue; // already delivered with the handshake segment
        }
        if fc {
            if let Some(&(a, b)) = cs.get(k) {
                let a = back(true, k, &cs).min(a);
                let fl = if s.fin_c && b == s.req.len() { pkt::ACK | pkt::PSH | pkt::FIN } else { pkt::ACK | pkt::PSH };
                let seg = tcp::data(&h, s.client, s.server, isn_c.wrapping_add(1).wrapping_add(a as u32), isn_s.wrapping_add(1), s.req[a..b].to_vec(), 0, 0, fl);
                push(seg, (true, k, a, b), &mut trace, &mut meta);
            }
        } else if let Some(&(a, b)) = ss.get(k) {
            let a = back(false, k, &ss).min(a);
            let fl = if s.fin_s && b == s.resp.len() { pkt::ACK | pkt::PSH | pkt::FIN } else { pkt::ACK | pkt::PSH };
            let seg = tcp::data(&h, s.server, s.client, isn_s.wrapping_add(1).wrapping_add(a as u32), isn_c.wrapping_add(1).wrapping_add(s.req.len() as u32), s.resp[a..b].to_vec(), 0, 0, fl);
            push(seg, (false, k, a, b), &mut trace, &mut meta);
        }
    }
    for &(efc, a, b, pos) in &s.extra {
        if pos >= order.len() {
            if let Some(seg) = extra_seg(efc, a, b) {
                push(seg, (efc, usize::MAX - 1, a, b), &mut trace, &mut meta);
            }
        }
    }
    (trace, meta)
}

fn in_order(nc: usize, ns: usize) -> Vec<(bool, usize)> {
    let mut v: Vec<(bool, usize)> = (0..nc).map(|k| (true, k)).collect();
    v.extend((0..ns).map(|k| (false, k)));
    v
}

fn covers(delivered: &[(usize, usize)], upto: usize) -> bool {
    let mut v = delivered.to_vec();
    v.sort();
    let mut end = 0;
    for (a, b) in v {
        if a > end {
            break;
        }
        end = end.max(b);
    }
    end >= upto
}

fn wraps(isn: u32, len: usize) -> bool {
    (isn as u64 + 1 + len as u64) > 0xffff_ffff
}

impl Prop for C09 {
    type Scn = Scn;
    const ID: &'static str = "C09";
    const ENGINE: &'static str = crate::NETSIM_ENGINE;

    fn rule() -> &'static str {
        "one evaluation = one delivery history (segmentation x ISN x arrival permutation x direction interleaving) of one generated HTTP/1.x or HTTP/2 exchange through the HTTP or unified analyzer, compared with the in-order one-segment-per-direction delivery at ISN 1000/5000; non-trivial = the reference reports a request or a response AND (>= 3 data segments OR out-of-order arrival OR sequence wrap inside a stream); distinct = distinct event-log hash"
    }

    fn runs(tier: Tier) -> u64 {
        tier.pick(60_000, 3_000_000)
    }

    fn generate(r: &mut Rng, _tier: Tier, _idx: u64) -> Scn {
        let h2 = r.chance(1, 4);
        let (req, req_head_len, resp, resp_head_len) = if h2 {
            let self_ref = r.chance(1, 3);
            let cont = r.chance(1, 6);
            // one HTTP/2 exchange in eight is busy: 90..300 further streams opened behind the first message
            let busy = if r.chance(1, 8) { r.urange(90, 300) } else { 0 };
            let (rq, st) = http2::connection_start(r, &http2::Opts { request: true, hostile: http2::Hostile::None, fancy_headers: false, odd_order: false, self_ref, continuation: cont, big_frame: None, announce_max_frame: false, huge_block: 0, extra_streams: busy, leading_frames: 0 });
            let busy_s = if r.chance(1, 2) { busy } else { 0 };
            let (rs, st2) = http2::connection_start(r, &http2::Opts { request: false, hostile: http2::Hostile::None, fancy_headers: false, odd_order: false, self_ref: false, continuation: false, big_frame: None, announce_max_frame: false, huge_block: 0, extra_streams: busy_s, leading_frames: 0 });
            (rq, st.head_end, rs, st2.head_end)
        } else {
            let (rq, rs) = if r.chance(1, 10) { (http1::exotic_request(r), http1::exotic_response(r)) } else { (http1::request(r, 300), http1::response(r, 400)) };
            // one HTTP/1 exchange in eight uses bare-LF line ends in its heads and bodies that contain CRLF CRLF
            let (rq, rs) = if r.chance(1, 8) { (http1::lf_variant(r, rq), http1::lf_variant(r, rs)) } else { (rq, rs) };
            (rq.bytes, rq.head_len, rs.bytes, rs.head_len)
        };
        // one HTTP/1 exchange in ten: request and response of exactly the same length (the shorter head gets a
        // padding header right behind its first line) - lengths that coincide are a thing two directions can share
        let (mut req, mut req_head_len, mut resp, mut resp_head_len) = (req, req_head_len, resp, resp_head_len);
        if !h2 && r.chance(1, 10) && req.len() != resp.len() {
            let diff = req.len().abs_diff(resp.len());
            if diff >= 8 {
                let (msg, head_len) = if req.len() < resp.len() { (&mut req, &mut req_head_len) } else { (&mut resp, &mut resp_head_len) };
                if let Some(p) = msg.windows(2).position(|w| w == b"\r\n") {
                    if p + 2 <= *head_len {
                        let mut line = b"X-P: ".to_vec();
                        line.extend(std::iter::repeat(b'a').take(diff - 7));
                        line.extend_from_slice(b"\r\n");
                        let at = p + 2;
                        msg.splice(at..at, line);
                        *head_len += diff;
                    }
                }
            }
        }
        let v6 = r.chance(1, 5);
        let cport = 40000 + r.below(20000) as u16;
        let sport = *r.pick(&[80u16, 8080, 8000, 443, 3128]);
        let (client, server) = if v6 { (Endpoint::v6(1, cport), Endpoint::v6(2, sport)) } else { (Endpoint::v4(10, 0, 0, 1, cport), Endpoint::v4(10, 0, 0, 2, sport)) };
        let gen_cuts = |r: &mut Rng, len: usize, head: usize| -> Vec<usize> {
            if len < 2 {
                return vec![];
            }
            let mut c: Vec<usize> = match r.below(7) {
                0 => vec![],
                1 => vec![r.urange(1, len - 1)],
                2 => {
                    // cuts inside the first line, inside CRLFCRLF, at the head end
                    let mut v = vec![];
                    for x in [3usize, 8, 14, head.saturating_sub(3), head.saturating_sub(2), head.saturating_sub(1), head, head + 1] {
                        if r.chance(1, 2) {
                            v.push(x);
                        }
                    }
                    v
                }
                3 => {
                    let m = *r.pick(&[1usize, 2, 7, 16, 64, 100, 536]);
                    // (now and then a trickle of well over a thousand segments: still far inside what a flow buffers)
                    let most = if r.chance(1, 3) { 1500 } else { 400 };
                    (1..).map(|k| k * m).take_while(|x| *x < len).take(most).collect()
                }
                _ => {
                    let parts = r.urange(2, 8);
                    r.cuts(len, parts)
                }
            };
            c.sort();
            c.dedup();
            c.retain(|x| *x >= 1 && *x < len);
            c
        };
        let c_cuts = gen_cuts(r, req.len(), req_head_len);
        let s_cuts = gen_cuts(r, resp.len(), resp_head_len);
        let isn = |r: &mut Rng, len: usize| -> u32 {
            match r.below(10) {
                0..=2 => 0u32.wrapping_sub(r.range(1, len as u64 + 2) as u32), // wraps inside the stream
                3 => 0xffff_ffff,
                4 => 0,
                5 => 0x7fff_ffff_u32.wrapping_sub(r.below(len as u64 + 1) as u32),
                _ => r.u32(),
            }
        };
        let isn_c = isn(r, req.len());
        let isn_s = isn(r, resp.len());
        // one connection in twelve: both sides picked the same initial sequence number (hosts that derive it from
        // a shared clock, test rigs, a 2^-32 coincidence otherwise)
        let isn_s = if r.chance(1, 12) { isn_c } else { isn_s };
        let nc = segs(req.len(), &c_cuts).len();
        let ns = segs(resp.len(), &s_cuts).len();
        // arrival order: permutation within each direction with bounded displacement, then interleave
        let perm = |r: &mut Rng, n: usize| -> Vec<usize> {
            let mut v: Vec<usize> = (0..n).collect();
            match r.below(4) {
                0 | 1 => {}
                2 => {
                    // nearly in order: a few adjacent swaps
                    for _ in 0..r.urange(1, 3) {
                        if n >= 2 {
                            let i = r.usize_below(n - 1);
                            v.swap(i, i + 1);
                        }
                    }
                }
                _ => r.shuffle(&mut v),
            }
            v
        };
        let pc = perm(r, nc);
        let ps = perm(r, ns);
        let mut order = vec![];
        let (mut i, mut j) = (0, 0);
        let serial = r.chance(1, 2);
        while i < pc.len() || j < ps.len() {
            let take_c = j >= ps.len() || (i < pc.len() && (serial || r.chance(1, 2)));
            if take_c {
                order.push((true, pc[i]));
                i += 1;
            } else {
                order.push((false, ps[j]));
                j += 1;
            }
        }
        // retransmission faults, one scenario in five
        let mut extend_back = vec![];
        let mut extra = vec![];
        if r.chance(1, 5) {
            for (fc, n) in [(true, nc), (false, ns)] {
                if n >= 2 && r.chance(1, 2) {
                    for _ in 0..r.urange(1, 2) {
                        let k = r.urange(1, n - 1);
                        extend_back.push((fc, k, r.urange(1, k.min(3))));
                    }
                }
            }
            for _ in 0..r.below(3) {
                let fc = r.chance(1, 2);
                let len = if fc { req.len() } else { resp.len() };
                if len >= 2 {
                    let a = r.usize_below(len - 1);
                    let b = r.urange(a + 1, len);
                    extra.push((fc, a, b, r.usize_below(order.len() + 2)));
                }
            }
        }
        let second_synack = if r.chance(1, 10) {
            let other = r.u32();
            Some((r.usize_below(nc + ns + 1), *r.pick(&[isn_s.wrapping_add(1000), isn_s.wrapping_sub(5), other, isn_s.wrapping_add(1)])))
        } else {
            None
        };
        let total = (nc + ns + 3 + extra.len()) as u64;
        Scn {
            kind: if r.chance(1, 4) { Kind::Unified } else { Kind::Http },
            framing: *r.pick(&[Framing::Ethernet, Framing::Ethernet, Framing::RawIp]),
            cap: *r.pick(&[4usize, 64, 1000]),
            client,
            server,
            isn_c,
            isn_s,
            h2,
            req,
            req_head_len,
            resp,
            resp_head_len,
            c_cuts,
            s_cuts,
            order,
            // stay far inside the 60 s flow TTL: the statement does not quantify over time
            gap_ns: (*r.pick(&[1_000u64, 1_000_000, 20_000_000])).min(20_000_000_000 / total),
            via_loop: r.chance(1, 4),
            fin_c: r.chance(1, 8),
            fin_s: r.chance(1, 8),
            extend_back,
            extra,
            second_synack,
            // TCP Fast Open: one connection in ten carries its first client segment on the SYN, one in thirty the
            // first server segment on the SYN+ACK
            on_syn: (r.chance(1, 10), r.chance(1, 30)),
        }
    }

    fn run(s: &Scn, st: &mut RunStats) -> Result<(), Violation> {
        let cfg = SutCfg::new(s.kind, s.cap);
        let key = s.kind.name();
        let nc = segs(s.req.len(), &s.c_cuts).len();
        let ns = segs(s.resp.len(), &s.s_cuts).len();
        // ---- reference: in order, one segment per direction, plain ISNs
        clock::arm(1_700_000_000_000);
        let plain = Scn { extend_back: vec![], extra: vec![], second_synack: None, on_syn: (false, false), ..s.clone() };
        let (rt, _) = build_trace(&plain, 1000, 5000, &[], &[], &in_order(1, 1));
        let rout = sut::run_deliver(&cfg, &rt).map_err(|e| Violation::new("harness-error", "", e))?;
        let pick = |outs: &[sut::PktOut], kind: &str| -> Vec<String> { outs.iter().flat_map(|o| o.obs.iter()).filter(|o| o.kind == kind).map(|o| o.text.clone()).collect() };
        let ref_req = pick(&rout, "http_request");
        let ref_resp = pick(&rout, "http_response");

        // ---- delivery under test
        clock::arm(1_700_000_000_000);
        let (tt, meta) = build_trace(s, s.isn_c, s.isn_s, &s.c_cuts, &s.s_cuts, &s.order);
        #[cfg(not(huginn_net_verif_sched))]
        let outs = if s.via_loop { sut::run_loop(&cfg, &tt) } else { sut::run_deliver(&cfg, &tt) };
        #[cfg(huginn_net_verif_sched)]
        let outs = sut::run_deliver(&cfg, &tt);
        let outs = outs.map_err(|e| Violation::new("harness-error", "", e))?;
        st.packets += (tt.len() + rt.len()) as u64;
        st.sim_ns += tt.last().map(|p| p.t).unwrap_or(0);

        let out_of_order = {
            let c: Vec<usize> = s.order.iter().filter(|o| o.0).map(|o| o.1).collect();
            let v: Vec<usize> = s.order.iter().filter(|o| !o.0).map(|o| o.1).collect();
            c.windows(2).any(|w| w[0] > w[1]) || v.windows(2).any(|w| w[0] > w[1])
        };
        let wrap_c = wraps(s.isn_c, s.req.len());
        let wrap_s = wraps(s.isn_s, s.resp.len());
        st.fault_n("segment_cut", (s.c_cuts.len() + s.s_cuts.len()) as u64);
        if out_of_order {
            st.fault("reorder");
        }
        st.fault_n("retransmission_coalesced_with_earlier_segments", s.extend_back.len() as u64);
        if s.second_synack.is_some() {
            st.fault("second_syn_ack_with_another_sequence_number");
        }
        if s.on_syn.0 || s.on_syn.1 {
            st.fault("data_on_a_handshake_segment");
        }
        if wrap_c || wrap_s {
            st.fault("isn_wraps_inside_stream");
        }
        if wraps(s.isn_c, s.req_head_len) || wraps(s.isn_s, s.resp_head_len) {
            st.probe("sequence_space_wraps_inside_a_head");
        }
        let il = s.order.iter().fold(0u64, |h, o| crate::rng::mix64(h ^ ((o.0 as u64) << 32 | o.1 as u64)));
        st.interleaving = Some(il);
        st.ev_u64(il);
        st.ev_u64(s.isn_c as u64);
        st.ev_u64(s.isn_s as u64);

        let cause = |dir_client: bool| -> &'static str {
            let w = if dir_client { wrap_c } else { wrap_s };
            // the two directions interleaved so that server data precedes the end of the client data
            let interleaved = s.order.iter().position(|o| !o.0).map(|p| s.order[p..].iter().any(|o| o.0)).unwrap_or(false);
            if s.extend_back.iter().any(|e| e.0 == dir_client) || s.extra.iter().any(|e| e.0 == dir_client) {
                "retransmission"
            } else if w {
                "wrap"
            } else if out_of_order {
                "order"
            } else if interleaved {
                "direction-interleaving"
            } else {
                "segmentation"
            }
        };

        let mut got_req: Vec<String> = vec![];
        let mut got_resp: Vec<String> = vec![];
        let mut delivered_c: Vec<(usize, usize)> = vec![];
        let mut delivered_s: Vec<(usize, usize)> = vec![];
        for (i, o) in outs.iter().enumerate() {
            let (fc, k, a, b) = meta[i];
            if k != usize::MAX {
                if k == usize::MAX - 1 {
                    st.fault("retransmitted_byte_range");
                }
                if fc {
                    delivered_c.push((a, b));
                } else {
                    delivered_s.push((a, b));
                }
            }
            for ob in &o.obs {
                if ob.kind != "http_request" && ob.kind != "http_response" {
                    continue;
                }
                st.ev(&ob.text);
                let is_req = ob.kind == "http_request";
                // (c) direction: reported on a packet of, and attributed to, the side that sent it
                let (want_src, want_dst) = if is_req { (s.client, s.server) } else { (s.server, s.client) };
                if fc != is_req || ob.src != sut::endpoints_of(&want_src) || ob.dst != sut::endpoints_of(&want_dst) {
                    return Err(Violation::new("direction", key, format!("{} reported on a packet from the {} with endpoints {}->{}", ob.kind, if fc { "client" } else { "server" }, ob.src, ob.dst)));
                }
                // (d) never early / never over a gap
                let (delivered, head) = if is_req { (&delivered_c, s.req_head_len) } else { (&delivered_s, s.resp_head_len) };
                if !covers(delivered, head) {
                    // a contiguous prefix shorter than the head = "early"; anything with a hole below the highest delivered byte = "non-contiguous"
                    let maxb = delivered.iter().map(|(_, b)| *b).max().unwrap_or(0);
                    let class = if covers(delivered, maxb) { "early" } else { "non-contiguous" };
                    if class == "non-contiguous" {
                        st.probe("head_completed_over_a_gap");
                    }
                    return Err(Violation::new(class, if s.h2 { "h2" } else { "h1" }, format!("{} reported after packet {} although the head [0,{}) is not contiguously present; delivered byte ranges of that direction so far: {:?}\n  reported: {}", ob.kind, i, head, delivered.iter().take(24).collect::<Vec<_>>(), ob.text.chars().take(300).collect::<String>())));
                }
                if is_req {
                    got_req.push(ob.text.clone());
                } else {
                    got_resp.push(ob.text.clone());
                }
            }
        }
        // (b) at most once
        if got_req.len() > 1 || got_resp.len() > 1 {
            return Err(Violation::new("duplicate-report", key, format!("{} request and {} response reports for one exchange", got_req.len(), got_resp.len())));
        }
        // (a) same as the reference
        for (is_req, got, want) in [(true, &got_req, &ref_req), (false, &got_resp, &ref_resp)] {
            let what = if is_req { "request" } else { "response" };
            if got.first() != want.first() {
                let class = cause(is_req);
                let hint = if s.h2 { "h2" } else { "h1" };
                let detail = match (got.first(), want.first()) {
                    (None, Some(_)) => format!("{} is reported for the in-order one-segment delivery but not for this one (isn_c={:#x} isn_s={:#x}, cuts c={:?} s={:?}, order={:?})", what, s.isn_c, s.isn_s, trunc(&s.c_cuts), trunc(&s.s_cuts), trunc_o(&s.order)),
                    (Some(_), None) => format!("{} is reported for this delivery but not for the in-order one-segment delivery (cuts c={:?} s={:?})", what, trunc(&s.c_cuts), trunc(&s.s_cuts)),
                    (Some(g), Some(w)) => format!("{} differs\n  reference: {}\n  this run:  {}", what, w.chars().take(400).collect::<String>(), g.chars().take(400).collect::<String>()),
                    _ => String::new(),
                };
                let key2 = match (got.first(), want.first()) {
                    (Some(_), None) => format!("{}:reported-only-when-split", hint),
                    (None, Some(_)) => format!("{}:lost", hint),
                    _ => format!("{}:differs", hint),
                };
                return Err(Violation::new(class, key2, detail));
            }
        }
        if (!ref_req.is_empty() || !ref_resp.is_empty()) && (nc + ns >= 3 || out_of_order || wrap_c || wrap_s) {
            st.nontrivial = true;
        }
        if !ref_req.is_empty() {
            st.probe("reference_reports_request");
        }
        if !ref_resp.is_empty() {
            st.probe("reference_reports_response");
        }
        Ok(())
    }

    fn shrink(s: &Scn) -> Vec<Scn> {
        let mut out = vec![];
        let renorm = |mut x: Scn| -> Scn {
            // keep `order` consistent with the number of segments
            let nc = segs(x.req.len(), &x.c_cuts).len();
            let ns = segs(x.resp.len(), &x.s_cuts).len();
            x.order.retain(|o| if o.0 { o.1 < nc } else { o.1 < ns });
            for k in 0..nc {
                if !x.order.contains(&(true, k)) {
                    x.order.push((true, k));
                }
            }
            for k in 0..ns {
                if !x.order.contains(&(false, k)) {
                    x.order.push((false, k));
                }
            }
            x
        };
        if s.second_synack.is_some() {
            let mut x = s.clone();
            x.second_synack = None;
            out.push(x);
        }
        if s.on_syn.0 || s.on_syn.1 {
            let mut x = s.clone();
            x.on_syn = (false, false);
            out.push(x);
        }
        // without the retransmission faults
        if !s.extend_back.is_empty() || !s.extra.is_empty() {
            let mut x = s.clone();
            x.extend_back.clear();
            x.extra.clear();
            out.push(x);
            for i in 0..s.extend_back.len() {
                let mut x = s.clone();
                x.extend_back.remove(i);
                out.push(x);
            }
            for i in 0..s.extra.len() {
                let mut x = s.clone();
                x.extra.remove(i);
                out.push(x);
            }
        }
        // in-order delivery
        {
            let mut x = s.clone();
            let nc = segs(x.req.len(), &x.c_cuts).len();
            let ns = segs(x.resp.len(), &x.s_cuts).len();
            x.order = in_order(nc, ns);
            out.push(x);
        }
        for (isc, iss) in [(1000u32, 5000u32), (s.isn_c, 5000), (1000, s.isn_s)] {
            if (isc, iss) != (s.isn_c, s.isn_s) {
                let mut x = s.clone();
                x.isn_c = isc;
                x.isn_s = iss;
                out.push(x);
            }
        }
        if !s.c_cuts.is_empty() {
            let mut x = s.clone();
            x.c_cuts.clear();
            out.push(renorm(x));
        }
        if !s.s_cuts.is_empty() {
            let mut x = s.clone();
            x.s_cuts.clear();
            out.push(renorm(x));
        }
        for i in 0..s.c_cuts.len().min(40) {
            let mut x = s.clone();
            x.c_cuts.remove(i);
            x.order = in_order(0, 0);
            let mut y = renorm(x);
            // keep relative order when possible: fall back to in-order if the removed cut breaks indices
            if s.order.iter().filter(|o| o.0).map(|o| o.1).collect::<Vec<_>>().windows(2).any(|w| w[0] > w[1]) {
                let nc = segs(y.req.len(), &y.c_cuts).len();
                let mut rev: Vec<(bool, usize)> = (0..nc).rev().map(|k| (true, k)).collect();
                rev.extend(y.order.iter().filter(|o| !o.0).cloned());
                y.order = rev;
            }
            out.push(y);
        }
        for i in 0..s.s_cuts.len().min(40) {
            let mut x = s.clone();
            x.s_cuts.remove(i);
            x.order = in_order(0, 0);
            out.push(renorm(x));
        }
        if s.kind != Kind::Http {
            let mut x = s.clone();
            x.kind = Kind::Http;
            out.push(x);
        }
        if s.via_loop {
            let mut x = s.clone();
            x.via_loop = false;
            out.push(x);
        }
        if s.framing != Framing::Ethernet {
            let mut x = s.clone();
            x.framing = Framing::Ethernet;
            out.push(x);
        }
        out
    }
}

fn trunc(v: &[usize]) -> Vec<usize> {
    v.iter().take(12).cloned().collect()
}
fn trunc_o(v: &[(bool, usize)]) -> Vec<(bool, usize)> {
    v.iter().take(16).cloned().collect()
}
