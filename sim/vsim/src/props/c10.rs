//! C10 — parallel mode is observationally equivalent to sequential mode (and the pool-side parts
//! of C01 and C08, which use the same machinery).
//!
//! A trace of whole connections is dispatched, in trace order, by one dispatcher thread to a real
//! worker pool whose queues are large enough never to overflow; shuttle decides every
//! interleaving of dispatcher, workers and collector. After the drain protocol the received
//! results are compared with the sequential analyzer of the same crate on the same trace.

#![cfg(huginn_net_verif_sched)]

use crate::conn::{self, Conn, ConnKind, ConnOpts, MergeMode};
use crate::pkt::{self, Endpoint, Framing};
use crate::pool::{self, ExecPlan, PoolCfg, PoolKind, Sched};
use crate::rng::Rng;
use crate::runner::{Prop, RunStats, Tier, Violation};
use crate::sut::{Obs, Sut, SutCfg, Timed};
use crate::tap::{self, Fault};
use huginn_net_verif_rt::clock;
use serde::{Deserialize, Serialize};
use std::collections::BTreeMap;
use std::sync::Arc;

#[derive(Clone, Debug, Serialize, Deserialize)]
pub struct Scn {
    pub cfg: PoolCfg,
    pub trace: Vec<Timed>,
    /// frames of a clean probe dispatched after the trace (C01 pool part); empty otherwise
    pub probe: Vec<Timed>,
    /// drive the analyzer's own parallel packet loop (with_config + init_pool + process_with) instead of WorkerPool::dispatch
    #[serde(default)]
    pub via_analyzer: bool,
    pub schedules: Vec<u64>,
    /// schedules drawn per scheduler seed
    pub iters: usize,
    pub sched: Sched,
    /// fault: the traffic pauses before frame `.0` for `.1` simulated ns (shorter than any flow lifetime)
    #[serde(default)]
    pub idle_gap: Option<(usize, u64)>,
    /// via_analyzer, HTTP: a second init_pool on the same analyzer while a handle to the first pool is held
    #[serde(default)]
    pub reinit_pool: bool,
    /// which rewrite of the signature database pool and sequential analyzer are given (0 = bundled)
    #[serde(default)]
    pub db_variant: u32,
    /// fault "slow worker" (non-zero): this much time passes, for whoever reads `Instant`, each time a worker takes a
    /// frame out of its queue - a worker starved of CPU or blocked in a slow log sink while the dispatcher runs ahead
    #[serde(default)]
    pub slow_worker_ns: u64,
    /// via_analyzer: the capture is cancelled while the packet source hands over the frame with this index; the
    /// reference is the sequential analysis of the frames taken before it
    #[serde(default)]
    pub cancel_after: Option<usize>,
}

/// keeps the model channel's on-receive hook installed for the lifetime of the value
struct SlowWorker;
impl SlowWorker {
    fn install(ns: u64) -> Option<SlowWorker> {
        if ns == 0 {
            return None;
        }
        let f: std::rc::Rc<dyn Fn()> = std::rc::Rc::new(move || clock::work_advance_ns(ns));
        verif_chan::set_on_receive(Some(f));
        Some(SlowWorker)
    }
}
impl Drop for SlowWorker {
    fn drop(&mut self) {
        verif_chan::set_on_receive(None);
    }
}

fn sequential(cfg: &PoolCfg, trace: &[Timed]) -> Result<Vec<Vec<Obs>>, Violation> {
    sequential_gap(cfg, trace, None)
}

fn sequential_gap(cfg: &PoolCfg, trace: &[Timed], gap: Option<(usize, u64)>) -> Result<Vec<Vec<Obs>>, Violation> {
    let mut sc = SutCfg::new(cfg.kind.sut_kind(), cfg.cap);
    sc.with_db = cfg.with_db;
    sc.filter = cfg.filter.clone();
    clock::arm(1_700_000_000_000); // frozen, as in the pool executions
    let mut s = Sut::new(&sc).map_err(|e| Violation::new("harness-error", "", e))?;
    Ok(trace
        .iter()
        .enumerate()
        .map(|(i, p)| {
            if let Some((at, ns)) = gap {
                if i == at {
                    clock::advance_ns(ns);
                }
            }
            s.deliver(&p.frame).obs
        })
        .collect())
}

fn conn_key(kind: PoolKind, o: &Obs) -> String {
    let host = |s: &str| s.rsplit_once(':').map(|x| x.0.to_string()).unwrap_or_default();
    match kind {
        // the TCP pool shards by sender: order is promised per sending host
        PoolKind::Tcp => host(&o.src),
        _ => {
            let (a, b) = (o.src.clone(), o.dst.clone());
            if a <= b {
                format!("{}|{}", a, b)
            } else {
                format!("{}|{}", b, a)
            }
        }
    }
}

fn compare(kind: PoolKind, seq: &[Vec<Obs>], got: &[Vec<Obs>], what: &str) -> Result<(), Violation> {
    let key = kind.name();
    let seq_ne: Vec<&Vec<Obs>> = seq.iter().filter(|r| !r.is_empty()).collect();
    let got_ne: Vec<&Vec<Obs>> = got.iter().filter(|r| !r.is_empty()).collect();
    // multiset
    let mut ms: BTreeMap<String, i64> = BTreeMap::new();
    let render = |r: &Vec<Obs>| r.iter().map(|o| o.text.clone()).collect::<Vec<_>>().join(" || ");
    for r in &seq_ne {
        *ms.entry(render(r)).or_insert(0) += 1;
    }
    for r in &got_ne {
        *ms.entry(render(r)).or_insert(0) -= 1;
    }
    if let Some((t, n)) = ms.iter().find(|(_, n)| **n != 0) {
        let kinds: String = t.split('{').next().unwrap_or("").trim().to_string();
        let class = if *n > 0 { "missing-result" } else { "extra-result" };
        return Err(Violation::new(class, format!("{}:{}", key, kinds), format!("{}: the sequential analyzer reports this result {} time(s) more than the pool ({} non-empty sequential, {} from the pool): {}", what, n, seq_ne.len(), got_ne.len(), t.chars().take(500).collect::<String>())));
    }
    // per-connection (per sending host for TCP) order
    let group = |rs: &[&Vec<Obs>]| -> BTreeMap<String, Vec<String>> {
        let mut m: BTreeMap<String, Vec<String>> = BTreeMap::new();
        for r in rs {
            m.entry(conn_key(kind, &r[0])).or_default().push(render(r));
        }
        m
    };
    let (gs, gg) = (group(&seq_ne), group(&got_ne));
    for (k, v) in &gs {
        if gg.get(k) != Some(v) {
            return Err(Violation::new("order", key, format!("{}: results of {} arrive in a different order than sequentially", what, k)));
        }
    }
    Ok(())
}

fn run_eq(s: &Scn, st: &mut RunStats, check_probe_only: bool) -> Result<(), Violation> {
    crate::sut::set_db_variant(s.db_variant);
    if s.db_variant != 0 {
        st.fault("rewritten_signature_database");
    }
    let kind = s.cfg.kind;
    let mut all: Vec<Timed> = s.trace.clone();
    all.extend(s.probe.iter().cloned());
    let taken = s.cancel_after.map(|k| k.min(all.len())).unwrap_or(all.len());
    if s.cancel_after.is_some() {
        st.fault("capture_cancelled_part_way");
    }
    let seq_all = sequential_gap(&s.cfg, &all[..taken], s.idle_gap)?;
    let seq_probe_fresh = if s.probe.is_empty() { vec![] } else { sequential(&s.cfg, &s.probe)? };
    let n = all.len();
    let plan = Arc::new(ExecPlan { via_analyzer: s.via_analyzer, cfg: s.cfg.clone(), dispatchers: vec![all.iter().map(|p| p.frame.clone()).collect()], stats_calls: 0, wait_for: None, consumer_gone_after: None, shutdown_after_yields: None, idle_gap: s.idle_gap, reinit_pool: s.reinit_pool, cancel_after: s.cancel_after });
    st.evals = 0;
    let mut any = false;
    let _slow = SlowWorker::install(s.slow_worker_ns);
    if s.slow_worker_ns != 0 {
        st.fault("slow_worker_seconds_per_frame");
    }
    for seed in &s.schedules {
      for out in pool::run_plan(plan.clone(), *seed, s.sched, s.iters).map_err(|e| Violation::new("harness-error", "", e))? {
        st.evals += 1;
        st.packets += n as u64;
        st.ev_u64(out.chan.hash);
        st.schedules_seen.push(out.chan.hash);
        st.fault_n("timeout_on_empty_queue", out.chan.timeouts_empty);
        st.probe_n("try_recv_empty", out.chan.try_recv_empty);
        if out.outcomes.iter().flatten().any(|q| !*q) {
            // unhashable frames are legitimately discarded by the TLS pool; anything else is an overflow the scenario must not have
            let unhashable = all.iter().filter(|p| pool::worker_of(kind, &p.frame, s.cfg.workers).is_none()).count();
            let dropped = out.outcomes.iter().flatten().filter(|q| !**q).count();
            if dropped > unhashable {
                return Err(Violation::new("unexpected-drop", kind.name(), format!("{} dispatches returned Dropped although every queue can hold the whole trace ({} frames, queue {})", dropped - unhashable, n, s.cfg.queue)));
            }
        }
        if s.via_analyzer {
            st.probe("driven_through_process_parallel");
        }
        if s.idle_gap.is_some() {
            st.fault("traffic_pauses_and_workers_time_out");
        }
        if s.reinit_pool {
            st.fault("pool_reinitialised_while_first_pool_still_busy");
        }
        if check_probe_only {
            // C01 pool part: after arbitrary faulty traffic the workers are alive and treat the probe like a fresh analyzer
            let probe_src: Vec<String> = seq_probe_fresh.iter().flatten().map(|o| o.src.clone()).collect();
            let got_probe: Vec<Vec<Obs>> = out.results.iter().filter(|r| r.iter().any(|o| probe_src.contains(&o.src))).cloned().collect();
            compare(kind, &seq_probe_fresh, &got_probe, "probe after faulty traffic")?;
        } else {
            compare(kind, &seq_all, &out.results, if s.via_analyzer { "trace via process_parallel" } else { "trace" }).map_err(|mut v| {
                if s.via_analyzer {
                    v.key = format!("via-process_parallel:{}", v.key);
                }
                v
            })?;
        }
        any |= out.results.iter().any(|r| !r.is_empty());
      }
    }
    // both directions of a connection on different workers? (probe: would make HTTP responses unfindable)
    if kind == PoolKind::Http && s.cfg.workers > 1 {
        let mut by_conn: BTreeMap<usize, Vec<usize>> = BTreeMap::new();
        for p in &s.trace {
            if p.conn < 1000 {
                if let Some(w) = pool::worker_of(kind, &p.frame, s.cfg.workers) {
                    by_conn.entry(p.conn).or_default().push(w);
                }
            }
        }
        if by_conn.values().any(|v| v.iter().any(|w| *w != v[0])) {
            st.probe("a_connection_is_split_across_workers");
        }
    }
    st.nontrivial = any && s.cfg.workers > 1;
    if seq_all.iter().any(|r| r.iter().any(|o| o.kind == "http_response")) {
        st.probe("sequential_finds_http_response");
    }
    Ok(())
}

fn gen_trace(r: &mut Rng, kind: PoolKind, n: usize, segmented_tls: bool) -> Vec<Timed> {
    gen_trace_in(r, kind, n, segmented_tls, false)
}

/// `probe_space`: draw endpoints from an address space no other generated (or plausibly corrupted) frame uses
fn gen_trace_in(r: &mut Rng, kind: PoolKind, n: usize, segmented_tls: bool, probe_space: bool) -> Vec<Timed> {
    let v6 = r.chance(1, 4);
    // arbitrary endpoints: worker assignment depends on them
    let mut eps: Vec<(Endpoint, Endpoint)> = vec![];
    while eps.len() < n {
        let (ca, sa, c6, s6) = if probe_space { (192u8, 198u8, 0x6000u16, 0xa000u16) } else { (10u8, 172u8, 0u16, 0x8000u16) };
        let c = if v6 { Endpoint::v6(c6 + 1 + r.below(5000) as u16, 1024 + r.below(60000) as u16) } else { Endpoint::v4(ca, r.u8(), r.u8(), 1 + r.below(250) as u8, 1024 + r.below(60000) as u16) };
        let s = if v6 { Endpoint::v6(s6 + r.below(50) as u16, *r.pick(&[80u16, 443, 8080])) } else { Endpoint::v4(sa, 16, r.u8(), 1 + r.below(250) as u8, *r.pick(&[80u16, 443, 8080, 8443])) };
        // some connections run between two ports of one address (loopback capture, hairpin NAT)
        let s = if r.chance(1, 6) { Endpoint { ip: c.ip, port: s.port } } else { s };
        if !eps.iter().any(|(a, b)| (*a == c && *b == s) || (*a == s && *b == c)) {
            eps.push((c, s));
        }
    }
    let framing = *r.pick(&[Framing::Ethernet, Framing::Ethernet, Framing::RawIp]);
    let o = ConnOpts { v6, framing, max_parts: 3, gap_lo: 1000, gap_hi: 2000, tls_single_segment: !segmented_tls };
    let conns: Vec<Conn> = eps
        .iter()
        .map(|(c, s)| {
            let ck = match kind {
                PoolKind::Tcp => *r.pick(&[ConnKind::TcpOnly, ConnKind::TcpOnly, ConnKind::Http1]),
                PoolKind::Tls => *r.pick(&[ConnKind::Tls, ConnKind::Tls, ConnKind::Tls, ConnKind::TlsReversed, ConnKind::Http1]),
                PoolKind::Http => *r.pick(&[ConnKind::Http1, ConnKind::Http1, ConnKind::Http2, ConnKind::TcpOnly]),
            };
            conn::build(r, ck, *c, *s, &o)
        })
        .collect();
    // Header fields that are not part of a connection's identity may change from packet to packet
    // (IPv6 flow label re-rolled after a retransmission timeout, IP id, TTL after a route change, ToS):
    // worker assignment must not follow them
    let mut conns = conns;
    for c in conns.iter_mut() {
        if r.chance(1, 2) {
            for st in c.steps.iter_mut() {
                if r.chance(1, 2) {
                    st.seg.flow_label = r.u32() & 0xfffff;
                }
                if r.chance(1, 3) {
                    st.seg.ip_id = r.u16();
                }
                if r.chance(1, 6) {
                    st.seg.ttl = st.seg.ttl.wrapping_sub(r.below(3) as u8);
                }
                if r.chance(1, 6) {
                    st.seg.tos = r.u8() & 0xfc;
                }
            }
        }
    }
    // frame-size extremes: one connection in ten has handshake segments that carry data (TCP Fast Open) of 1 byte
    // up to a jumbo frame's worth, half of them with the IPv4 and TCP option areas filled to their maximum
    for c in conns.iter_mut() {
        if r.chance(1, 10) {
            let n = *r.pick(&[1usize, 100, 1400, 8900, 9100, 20000]);
            let maxed = r.chance(1, 2);
            for st in c.steps.iter_mut().filter(|st| st.seg.flags & pkt::SYN != 0) {
                st.seg.payload = r.bytes(n);
                if maxed {
                    if !v6 {
                        st.seg.ip_opts = vec![0x01; 40];
                    }
                    while st.seg.tcp_opts.len() < 40 {
                        st.seg.tcp_opts.push(0x01);
                    }
                    st.seg.tcp_opts.truncate(40);
                }
            }
        }
    }
    let lens: Vec<usize> = conns.iter().map(|c| c.steps.len()).collect();
    let mode = *r.pick(&[MergeMode::Uniform, MergeMode::RoundRobin, MergeMode::Bursts]);
    let order = conn::merge_order(r, &lens, mode);
    let mut trace = conn::to_trace(&conns, &order);
    // fault "duplication", one trace in three: every packet of one connection is captured a second time after the
    // trace has ended (a mirror port that feeds the capture twice, a replayed capture file): same SYN, same data
    // - or only some of them: the SYN and the data segments but not the SYN+ACK, the data alone, a random half
    if r.chance(1, 3) && !trace.is_empty() {
        let reversed: Vec<usize> = (0..conns.len()).filter(|i| matches!(conns[*i].kind, ConnKind::TlsReversed | ConnKind::Http1Reversed)).collect();
        let ci = if !reversed.is_empty() && r.chance(1, 2) { *r.pick(&reversed) } else { r.usize_below(conns.len()) };
        let base = trace.last().map(|p| p.t).unwrap_or(0) + 1_000_000;
        let pattern = r.below(4);
        let mut dup: Vec<Timed> = vec![];
        for (k, p) in trace.iter().filter(|p| p.conn == ci).enumerate() {
            let seg = &conns[ci].steps[k.min(conns[ci].steps.len() - 1)].seg;
            let (syn, ack, data) = (seg.flags & pkt::SYN != 0, seg.flags & pkt::ACK != 0, !seg.payload.is_empty());
            let take = match pattern {
                0 => true,
                1 => (syn && !ack) || data,
                2 => data,
                _ => r.chance(1, 2),
            };
            if take {
                let mut q = p.clone();
                q.t = base + k as u64 * 1000;
                dup.push(q);
            }
        }
        trace.extend(dup);
    }
    trace
}

/// Population trace: `n` connections that are all open at the same time — every connection's k-th packet
/// arrives before any connection's (k+1)-th — so each worker's flow table holds its whole share at once.
fn gen_population(r: &mut Rng, kind: PoolKind, n: usize) -> Vec<Timed> {
    let mut eps: Vec<(Endpoint, Endpoint)> = Vec::with_capacity(n);
    let mut seen = std::collections::BTreeSet::new();
    while eps.len() < n {
        let c = Endpoint::v4(10, r.u8(), r.u8(), 1 + r.below(250) as u8, 1024 + r.below(60000) as u16);
        let s = Endpoint::v4(172, 16, r.u8(), 1 + r.below(250) as u8, *r.pick(&[80u16, 443, 8080, 8443]));
        // distinct sending hosts too: the TCP pool shards, and keeps its timestamp state, per sender
        if seen.insert(c.ip) && seen.insert(s.ip) {
            eps.push((c, s));
        }
    }
    let o = ConnOpts { v6: false, framing: Framing::Ethernet, max_parts: 3, gap_lo: 1000, gap_hi: 2000, tls_single_segment: false };
    let conns: Vec<Conn> = eps
        .iter()
        .map(|(c, s)| {
            let ck = match kind {
                PoolKind::Tcp => ConnKind::TcpOnly,
                PoolKind::Tls => ConnKind::Tls,
                PoolKind::Http => ConnKind::Http1,
            };
            let mut c = conn::build(r, ck, *c, *s, &o);
            // (the population keeps the classic shape - data only after the handshake: a first part that rides on the
            // SYN is moved back behind the handshake's last segment)
            if let Some(si) = c.steps.iter().position(|st| st.seg.flags & pkt::SYN != 0 && st.seg.flags & pkt::ACK == 0 && !st.seg.payload.is_empty()) {
                let payload = std::mem::take(&mut c.steps[si].seg.payload);
                let at = c.steps.iter().position(|st| st.seg.src == c.client && st.seg.flags & pkt::SYN == 0).unwrap_or(c.steps.len() - 1);
                let mut d = c.steps[at].clone();
                d.seg.payload = payload;
                d.seg.flags = pkt::ACK | pkt::PSH;
                d.seg.seq = c.steps[si].seg.seq.wrapping_add(1);
                c.steps.insert(at + 1, d);
            }
            // every connection must be incomplete for a while: the client's bytes are re-cut into exactly two segments,
            // the first ending inside the message that yields the result (ClientHello record / request head)
            let client = c.client;
            let data: Vec<usize> = c.steps.iter().enumerate().filter(|(_, st)| st.seg.src == client && !st.seg.payload.is_empty() && st.seg.flags & pkt::RST == 0).map(|(i, _)| i).collect();
            if let Some(&i0) = data.first() {
                let mut stream: Vec<u8> = vec![];
                for &i in &data {
                    stream.extend_from_slice(&c.steps[i].seg.payload);
                }
                let inside = if stream.len() >= 5 && stream[0] == 0x16 {
                    (5 + u16::from_be_bytes([stream[3], stream[4]]) as usize).min(stream.len())
                } else {
                    stream.windows(4).position(|w| w == b"\r\n\r\n").map(|p| p + 4).unwrap_or(stream.len())
                };
                if inside >= 12 {
                    let cut = r.urange(6, inside - 1);
                    let fin = data.iter().any(|&i| c.steps[i].seg.flags & pkt::FIN != 0);
                    for &i in data.iter().skip(1).rev() {
                        c.steps.remove(i);
                    }
                    let mut second = c.steps[i0].clone();
                    second.seg.payload = stream[cut..].to_vec();
                    second.seg.seq = c.steps[i0].seg.seq.wrapping_add(cut as u32);
                    if second.seg.flags & pkt::SYN != 0 {
                        // the first part rides on the SYN (Fast Open): the rest is an ordinary segment, and the data
                        // started one sequence number after the SYN's own
                        second.seg.flags = pkt::ACK | pkt::PSH;
                        second.seg.seq = second.seg.seq.wrapping_add(1);
                        second.seg.ack = 1;
                    }
                    if fin {
                        second.seg.flags |= pkt::FIN;
                    }
                    c.steps[i0].seg.payload = stream[..cut].to_vec();
                    c.steps[i0].seg.flags &= !pkt::FIN;
                    c.steps.insert(i0 + 1, second);
                }
            }
            c
        })
        .collect();
    let lens: Vec<usize> = conns.iter().map(|c| c.steps.len()).collect();
    let order = conn::merge_order(r, &lens, MergeMode::RoundRobin);
    conn::to_trace(&conns, &order)
}

fn gen_cfg(r: &mut Rng, kind: PoolKind, trace_len: usize) -> PoolCfg {
    PoolCfg { kind, workers: *r.pick(&[1usize, 2, 2, 3, 4, 5, 8, 16]), queue: trace_len + 8, batch: *r.pick(&[1usize, 2, 8, 32, 64]), timeout_ms: *r.pick(&[1u64, 10, 100]), cap: 200, with_db: r.chance(2, 3), filter: None }
}

fn shrink_common(s: &Scn) -> Vec<Scn> {
    let mut out = vec![];
    if s.idle_gap.is_some() {
        let mut x = s.clone();
        x.idle_gap = None;
        out.push(x);
    }
    if s.slow_worker_ns != 0 {
        let mut x = s.clone();
        x.slow_worker_ns = 0;
        out.push(x);
    }
    if s.schedules.len() > 1 {
        for sd in &s.schedules {
            let mut x = s.clone();
            x.schedules = vec![*sd];
            out.push(x);
        }
    }
    if s.cfg.workers > 2 {
        let mut x = s.clone();
        x.cfg.workers = 2;
        out.push(x);
    }
    // drop whole connections
    let mut tags: Vec<usize> = s.trace.iter().map(|p| p.conn).collect();
    tags.sort();
    tags.dedup();
    if tags.len() > 24 {
        // a population: halve the set of connections (and the capacity with it when it was tight) instead of
        // proposing one candidate per connection or per frame
        for keep in [0usize, 1, 2] {
            let mut x = s.clone();
            let half: std::collections::BTreeSet<usize> = tags.iter().enumerate().filter(|(i, _)| match keep { 0 => *i < tags.len() / 2, 1 => *i >= tags.len() / 2, _ => i % 2 == 0 }).map(|(_, t)| *t).collect();
            x.trace.retain(|p| half.contains(&p.conn));
            out.push(x.clone());
            x.cfg.cap = (x.cfg.cap / 2).max(1);
            out.push(x);
        }
        return out;
    }
    if tags.len() > 1 {
        for t in tags {
            let mut x = s.clone();
            x.trace.retain(|p| p.conn != t);
            out.push(x);
        }
    }
    if s.trace.len() <= 400 {
        for i in (0..s.trace.len()).rev() {
            let mut x = s.clone();
            x.trace.remove(i);
            out.push(x);
        }
    }
    out
}

pub struct C10;

impl Prop for C10 {
    type Scn = Scn;
    const ID: &'static str = "C10";
    const ENGINE: &'static str = "poolsim";

    fn rule() -> &'static str {
        "one evaluation = one (trace of 2..12 whole connections, pool configuration, schedule) execution of a real TCP/HTTP/TLS WorkerPool under shuttle, compared (multiset of non-empty results, and per-connection / per-sending-host order) with the sequential analyzer of the same crate on the same trace; non-trivial = more than one worker AND the execution delivered at least one non-empty result; distinct = distinct model-channel event-sequence hash (schedule)"
    }

    fn runs(tier: Tier) -> u64 {
        tier.pick(2_000, 60_000)
    }

    fn run_wall_limit_s() -> u64 {
        60
    }

    fn panics_are_violations() -> bool {
        true
    }

    fn generate(r: &mut Rng, tier: Tier, _idx: u64) -> Scn {
        let kind = *r.pick(&PoolKind::ALL);
        // one scenario in forty: a population of simultaneously open connections that exactly fills the configured capacity
        if r.chance(1, 40) {
            let n = r.urange(300, tier.pick(700, 1500));
            let trace = gen_population(r, kind, n);
            let mut cfg = gen_cfg(r, kind, trace.len());
            cfg.workers = *r.pick(&[2usize, 2, 3, 4]);
            // the TCP analyzer tracks timestamps per direction: two entries per connection
            cfg.cap = if kind == PoolKind::Tcp { 2 * n } else { n };
            return Scn { cancel_after: None, slow_worker_ns: 0, idle_gap: None, reinit_pool: false, db_variant: 0, cfg, trace, probe: vec![], via_analyzer: false, schedules: vec![r.next_u64()], iters: 2, sched: Sched::Random };
        }
        let n = r.urange(2, tier.pick(6, 12));
        let trace = gen_trace(r, kind, n, true);
        let cfg = gen_cfg(r, kind, trace.len());
        let n_sched = tier.pick(2, 10);
        let via = r.chance(1, 4);
        // fault, one scenario in six (HTTP and TLS pools; TCP results carry receive times): the traffic pauses for
        // less than a flow lifetime at some point of the trace
        let idle_gap = if !via && kind != PoolKind::Tcp && r.chance(1, 6) {
            let g = if kind == PoolKind::Tls { *r.pick(&[5u64, 12, 19]) } else { *r.pick(&[12u64, 30, 55]) };
            Some((r.usize_below(trace.len().max(1)), g * 1_000_000_000))
        } else {
            None
        };
        // (a pause is explored under the random scheduler only: under PCT the dispatcher's wait for the queues to
        // drain spins to its cap while low-priority workers starve, and one scenario then costs a minute of CPU)
        let sched = if tier == Tier::Thorough && idle_gap.is_none() && r.chance(1, 4) { Sched::Pct(r.urange(2, 3)) } else { Sched::Random };
        let reinit_pool = via && kind == PoolKind::Http && r.chance(1, 2);
        let db_variant = if kind != PoolKind::Tls && r.chance(1, 4) { 1 + r.below(crate::sut::DB_VARIANTS as u64) as u32 } else { 0 };
        // fault, every other TCP scenario that goes through the analyzer's own loop: a slow worker (seconds per frame)
        let slow_worker_ns = if via && kind == PoolKind::Tcp && r.chance(1, 2) { *r.pick(&[1_500_000_000u64, 3_000_000_000, 10_000_000_000]) } else { 0 };
        // fault, every other scenario through the analyzer's own loop: the application cancels the run part-way
        let cancel_after = if via && !reinit_pool && slow_worker_ns == 0 && r.chance(1, 2) && trace.len() > 3 { Some(r.urange(1, trace.len() - 1)) } else { None };
        Scn { cancel_after, slow_worker_ns, idle_gap, reinit_pool, db_variant, cfg, trace, probe: vec![], via_analyzer: via, schedules: (0..n_sched).map(|_| r.next_u64()).collect(), iters: tier.pick(8, 20), sched }
    }

    fn run(s: &Scn, st: &mut RunStats) -> Result<(), Violation> {
        run_eq(s, st, false)
    }

    fn shrink(s: &Scn) -> Vec<Scn> {
        shrink_common(s)
    }
}

/// C08, per-worker path: segmented ClientHellos through the TLS pool.
pub struct C08Pool;

impl Prop for C08Pool {
    type Scn = Scn;
    const ID: &'static str = "C08";
    const ENGINE: &'static str = "poolsim";

    fn rule() -> &'static str {
        "poolsim part: one evaluation = one (trace of segmented ClientHello connections, TLS pool configuration, schedule) execution; every flow's segments must reach one worker in order, so the pool reports exactly the results of the sequential TLS analyzer (one per ClientHello); non-trivial = more than one worker and at least one ClientHello delivered in >= 2 segments"
    }

    fn runs(tier: Tier) -> u64 {
        tier.pick(1_000, 50_000)
    }

    fn run_wall_limit_s() -> u64 {
        60
    }

    fn generate(r: &mut Rng, tier: Tier, _idx: u64) -> Scn {
        let n = r.urange(1, tier.pick(4, 8));
        let trace = gen_trace(r, PoolKind::Tls, n, true);
        let mut cfg = gen_cfg(r, PoolKind::Tls, trace.len());
        cfg.workers = *r.pick(&[1usize, 2, 3, 4, 8]);
        cfg.batch = *r.pick(&[1usize, 2, 4, 32]);
        let n_sched = tier.pick(2, 8);
        Scn { cancel_after: None, slow_worker_ns: 0, idle_gap: None, reinit_pool: false, db_variant: 0, cfg, trace, probe: vec![], via_analyzer: false, schedules: (0..n_sched).map(|_| r.next_u64()).collect(), iters: tier.pick(6, 12), sched: Sched::Random }
    }

    fn run(s: &Scn, st: &mut RunStats) -> Result<(), Violation> {
        run_eq(s, st, false)
    }

    fn shrink(s: &Scn) -> Vec<Scn> {
        shrink_common(s)
    }
}

/// C01, worker path: faulty traffic through filter-less dispatch hashing and the worker loops, then a clean probe.
pub struct C01Pool;

impl Prop for C01Pool {
    type Scn = Scn;
    const ID: &'static str = "C01";
    const ENGINE: &'static str = "poolsim";

    fn rule() -> &'static str {
        "poolsim part: one evaluation = one (faulty trace + clean probe, pool configuration, schedule) execution of a real worker pool; a worker panic, deadlock or step-limit overrun is a violation, and the probe's results from the pool must equal those of a fresh sequential analyzer; non-trivial = at least one fault fired and the probe produced results"
    }

    fn runs(tier: Tier) -> u64 {
        tier.pick(1_500, 60_000)
    }

    fn panics_are_violations() -> bool {
        true
    }

    fn run_wall_limit_s() -> u64 {
        60
    }

    fn generate(r: &mut Rng, tier: Tier, _idx: u64) -> Scn {
        let kind = *r.pick(&PoolKind::ALL);
        let n = r.urange(1, 4);
        let mut trace = gen_trace(r, kind, n, true);
        let faults: Vec<Fault> = (0..r.urange(1, 4)).map(|_| *r.pick(&Fault::ALL)).collect();
        for p in trace.iter_mut() {
            if r.chance(1, 3) {
                let f = *r.pick(&faults);
                if tap::apply(r, f, &mut p.frame) {
                    p.conn = 100_000 + f as usize;
                }
            }
        }
        for _ in 0..r.urange(0, 3) {
            let i = r.usize_below(trace.len() + 1);
            trace.insert(i, Timed { t: 0, frame: tap::splice(r), conn: 200_000 });
        }
        // probe on 4-tuples no faulty frame uses
        let mut probe = gen_trace_in(r, kind, 2, false, true);
        for p in probe.iter_mut() {
            p.conn += 300_000;
        }
        let mut cfg = gen_cfg(r, kind, trace.len() + probe.len());
        cfg.workers = *r.pick(&[1usize, 2, 3, 4]);
        // the receive timeout is a public u64: zero (poll without waiting), hours, and values that mean "never"
        if r.chance(1, 4) {
            cfg.timeout_ms = *r.pick(&[0u64, 3_600_000, u64::MAX, u64::MAX, u64::MAX / 1000, 1 << 62]);
        }
        // one run in three goes through the analyzer's own parallel capture loop, which ends the run itself
        let via_analyzer = r.chance(1, 3);
        let n_sched = tier.pick(2, 6);
        Scn { cancel_after: None, slow_worker_ns: 0, idle_gap: None, reinit_pool: false, db_variant: if r.chance(1, 4) { 1 + r.below(crate::sut::DB_VARIANTS as u64) as u32 } else { 0 }, cfg, trace, probe, via_analyzer, schedules: (0..n_sched).map(|_| r.next_u64()).collect(), iters: tier.pick(4, 10), sched: Sched::Random }
    }

    fn run(s: &Scn, st: &mut RunStats) -> Result<(), Violation> {
        for p in &s.trace {
            if p.conn >= 100_000 && p.conn < 200_000 {
                st.fault(Fault::ALL[(p.conn - 100_000).min(Fault::ALL.len() - 1)].name());
            } else if p.conn == 200_000 {
                st.fault("splice");
            }
        }
        if s.cfg.timeout_ms >= 1 << 50 {
            st.fault("receive_timeout_that_never_fires");
        } else if s.cfg.timeout_ms == 0 {
            st.fault("receive_timeout_zero");
        }
        run_eq(s, st, true)
    }

    fn shrink(s: &Scn) -> Vec<Scn> {
        shrink_common(s)
    }
}

/// C15, parallel path: a pool created with a filter must deliver exactly what the unfiltered
/// sequential analyzer delivers for the sub-trace the filter admits (by the analyzer's own view).
pub struct C15Pool;

impl Prop for C15Pool {
    type Scn = Scn;
    const ID: &'static str = "C15";
    const ENGINE: &'static str = "poolsim";

    fn rule() -> &'static str {
        "poolsim part: one evaluation = one (trace with malformed frames, filter, pool configuration, schedule) execution of a real worker pool created with the filter, compared as a multiset with the unfiltered sequential analyzer on the admitted sub-trace; non-trivial = more than one worker, the filter admits some and rejects some frames, and results were delivered"
    }

    fn runs(tier: Tier) -> u64 {
        tier.pick(1_000, 40_000)
    }

    fn panics_are_violations() -> bool {
        true
    }

    fn run_wall_limit_s() -> u64 {
        60
    }

    fn generate(r: &mut Rng, tier: Tier, _idx: u64) -> Scn {
        let kind = *r.pick(&PoolKind::ALL);
        let n = r.urange(2, 5);
        let mut trace = gen_trace(r, kind, n, true);
        for p in trace.iter_mut() {
            if r.chance(1, 8) {
                let f = *r.pick(&[Fault::IhlSet, Fault::TotalLenLie, Fault::ProtocolSet, Fault::Truncate, Fault::DataOffsetSet, Fault::IpVersionSet]);
                if tap::apply(r, f, &mut p.frame) {
                    p.conn = 100_000 + f as usize;
                }
            }
        }
        let mut cfg = gen_cfg(r, kind, trace.len());
        cfg.filter = Some(super::c15::gen_filter(r, &trace));
        let n_sched = tier.pick(2, 6);
        Scn { cancel_after: None, slow_worker_ns: 0, idle_gap: None, reinit_pool: false, db_variant: 0, cfg, trace, probe: vec![], via_analyzer: r.chance(1, 4), schedules: (0..n_sched).map(|_| r.next_u64()).collect(), iters: tier.pick(4, 10), sched: Sched::Random }
    }

    fn run(s: &Scn, st: &mut RunStats) -> Result<(), Violation> {
        let kind = s.cfg.kind;
        let Some(fspec) = &s.cfg.filter else { return Ok(()) };
        let f = crate::sut::filter_canonical(fspec);
        let admit: Vec<Option<bool>> = s.trace.iter().map(|p| super::c15::view(&p.frame).map(|(a, b, sp, dp)| f.should_process(&a, &b, sp, dp))).collect();
        let sub: Vec<Timed> = s.trace.iter().zip(admit.iter()).filter(|(_, a)| a.unwrap_or(true)).map(|(p, _)| p.clone()).collect();
        let mut unfiltered = s.cfg.clone();
        unfiltered.filter = None;
        let expect = sequential(&unfiltered, &sub)?;
        let plan = Arc::new(ExecPlan { via_analyzer: s.via_analyzer, cfg: s.cfg.clone(), dispatchers: vec![s.trace.iter().map(|p| p.frame.clone()).collect()], stats_calls: 0, wait_for: None, consumer_gone_after: None, shutdown_after_yields: None, idle_gap: None, reinit_pool: false, cancel_after: None });
        let n_adm = admit.iter().filter(|a| **a == Some(true)).count();
        let n_rej = admit.iter().filter(|a| **a == Some(false)).count();
        st.probe_n("frames_admitted", n_adm as u64);
        st.probe_n("frames_rejected", n_rej as u64);
        for p in &s.trace {
            if p.conn >= 100_000 && p.conn < 200_000 {
                st.fault(Fault::ALL[(p.conn - 100_000).min(Fault::ALL.len() - 1)].name());
            }
        }
        st.evals = 0;
        let mut any = false;
        for seed in &s.schedules {
            for out in pool::run_plan(plan.clone(), *seed, s.sched, s.iters).map_err(|e| Violation::new("harness-error", "", e))? {
                st.evals += 1;
                st.packets += s.trace.len() as u64;
                st.ev_u64(out.chan.hash);
                st.schedules_seen.push(out.chan.hash);
                compare(kind, &expect, &out.results, "filtered pool vs unfiltered sequential on the admitted sub-trace")?;
                any |= out.results.iter().any(|r| !r.is_empty());
            }
        }
        st.nontrivial = any && s.cfg.workers > 1 && n_adm > 0 && n_rej > 0;
        Ok(())
    }

    fn shrink(s: &Scn) -> Vec<Scn> {
        shrink_common(s)
    }
}
