//! C20 — the unified analyzer equals the union of the protocol analyzers; configuration only masks.
//!
//! One trace (interleaved connections, single-segment ClientHellos, malformed frames) is fed, in
//! lockstep and at the same simulated times, to one `HuginnNet` per switch combination and to the
//! three protocol analyzers (`HuginnNetTcp`, `HuginnNetHttp`, stateless `process_tls_ipv4/6`).

use crate::conn::{self, ConnKind, ConnOpts, MergeMode};
use crate::pkt::Framing;
use crate::rng::Rng;
use crate::runner::{Prop, RunStats, Tier, Violation};
use crate::sut::{self, Kind, Obs, Sut, SutCfg, Timed};
use crate::tap::{self, Fault};
use huginn_net_verif_rt::clock;
use serde::{Deserialize, Serialize};

#[derive(Clone, Debug, Serialize, Deserialize)]
pub struct Scn {
    pub cap: usize,
    pub trace: Vec<Timed>,
    /// which of the 16 switch combinations to run (bit 0 tcp, 1 http, 2 tls, 3 matcher)
    pub configs: Vec<u8>,
    /// fault: the capture source ends before these frame indices and a new capture run starts on the same instances
    #[serde(default)]
    pub boundaries: Vec<usize>,
    /// which rewrite of the signature database every analyzer of the run is given (0 = the bundled one)
    #[serde(default)]
    pub db_variant: u32,
    /// scale scenario (the trace is empty then): see `Flood`
    #[serde(default)]
    pub flood: Option<Flood>,
    /// file mode: the trace is written to a capture file (classic pcap, little endian, microseconds) and every
    /// analyzer reads it through its own `analyze_pcap`; per frame the number of bytes the file keeps of it (a
    /// capture taken with a snap length: incl_len < orig_len), 0 = all of it
    #[serde(default)]
    pub pcap_snap: Option<Vec<usize>>,
}

/// Write `trace` as a classic pcap file of the given link type; `snap[i]` > 0 truncates record i to that many bytes.
#[cfg_attr(huginn_net_verif_sched, allow(dead_code))]
fn write_pcap(path: &str, linktype: u32, trace: &[Timed], snap: &[usize]) -> std::io::Result<()> {
    let mut f: Vec<u8> = vec![];
    f.extend_from_slice(&0xa1b2c3d4u32.to_le_bytes());
    f.extend_from_slice(&2u16.to_le_bytes());
    f.extend_from_slice(&4u16.to_le_bytes());
    f.extend_from_slice(&0i32.to_le_bytes());
    f.extend_from_slice(&0u32.to_le_bytes());
    f.extend_from_slice(&262144u32.to_le_bytes());
    f.extend_from_slice(&linktype.to_le_bytes());
    for (i, p) in trace.iter().enumerate() {
        let keep = match snap.get(i).copied().unwrap_or(0) {
            0 => p.frame.len(),
            n => n.min(p.frame.len()),
        };
        f.extend_from_slice(&((p.t / 1_000_000_000) as u32).to_le_bytes());
        f.extend_from_slice(&(((p.t / 1000) % 1_000_000) as u32).to_le_bytes());
        f.extend_from_slice(&(keep as u32).to_le_bytes());
        f.extend_from_slice(&(p.frame.len() as u32).to_le_bytes());
        f.extend_from_slice(&p.frame[..keep]);
    }
    std::fs::write(path, f)
}

/// File mode: the unified analyzer (everything on, matching on) and the TCP and HTTP analyzers each read the same
/// capture file; the TCP and HTTP results the unified analyzer reports, in order, must be the protocol analyzers'.
#[cfg(huginn_net_verif_sched)]
fn run_pcap(_s: &Scn, _snap: &[usize], _st: &mut RunStats) -> Result<(), Violation> {
    Ok(()) // netsim builds only (C20 is not served by the scheduler engine)
}

#[cfg(not(huginn_net_verif_sched))]
fn run_pcap(s: &Scn, snap: &[usize], st: &mut RunStats) -> Result<(), Violation> {
    use std::sync::mpsc;
    sut::set_db_variant(0);
    clock::arm(1_700_000_000_000);
    let dir = format!("{}/out/tmp", crate::runner::verif_root());
    std::fs::create_dir_all(&dir).map_err(|e| Violation::new("harness-error", "", format!("{}: {}", dir, e)))?;
    let path = format!("{}/c20-{}-{:?}.pcap", dir, std::process::id(), std::thread::current().id()).replace(['(', ')'], "");
    write_pcap(&path, 1, &s.trace, snap).map_err(|e| Violation::new("harness-error", "", format!("{}: {}", path, e)))?;
    let res = (|| -> Result<(Vec<Obs>, Vec<Obs>, Vec<Obs>), String> {
        let mut ucfg = SutCfg::new(Kind::Unified, s.cap);
        ucfg.uni = Some((true, true, false, true));
        let (mut u, mut t, mut h) = (vec![], vec![], vec![]);
        if let Sut::Unified(mut a, _) = Sut::new(&ucfg)? {
            let (tx, rx) = mpsc::channel();
            a.analyze_pcap(&path, tx, None).map_err(|e| format!("unified analyze_pcap: {}", e))?;
            for r in rx.try_iter() {
                u.extend(sut::obs_uni(&r));
            }
        }
        if let Sut::Tcp(mut a, _) = Sut::new(&SutCfg::new(Kind::Tcp, s.cap))? {
            let (tx, rx) = mpsc::channel();
            a.analyze_pcap(&path, tx, None).map_err(|e| format!("tcp analyze_pcap: {}", e))?;
            for r in rx.try_iter() {
                t.extend(sut::obs_tcp(&r));
            }
        }
        if let Sut::Http(mut a) = Sut::new(&SutCfg::new(Kind::Http, s.cap))? {
            let (tx, rx) = mpsc::channel();
            a.analyze_pcap(&path, tx, None).map_err(|e| format!("http analyze_pcap: {}", e))?;
            for r in rx.try_iter() {
                h.extend(sut::obs_http(&r));
            }
        }
        Ok((u, t, h))
    })();
    let _ = std::fs::remove_file(&path);
    let (u, t, h) = res.map_err(|e| Violation::new("harness-error", "", e))?;
    // the statement compares packets that every enabled analyzer accepts: when the TCP or the HTTP analyzer rejects
    // one of the records as the file holds it (a cut inside the headers, corrupted frames), the run only counts
    {
        let cut_trace: Vec<Timed> = s.trace.iter().enumerate().map(|(i, p)| {
            let keep = match snap.get(i).copied().unwrap_or(0) {
                0 => p.frame.len(),
                n => n.min(p.frame.len()),
            };
            Timed { t: p.t, frame: p.frame[..keep].to_vec(), conn: p.conn }
        }).collect();
        for k in [Kind::Tcp, Kind::Http] {
            clock::arm(1_700_000_000_000);
            let outs = sut::run_deliver(&SutCfg::new(k, s.cap), &cut_trace).map_err(|e| Violation::new("harness-error", "", e))?;
            if outs.iter().any(|o| o.err.is_some()) {
                st.probe("capture_file_with_a_record_an_analyzer_rejects");
                st.evals = 1;
                return Ok(());
            }
        }
    }
    st.evals = s.trace.len() as u64;
    st.packets += 3 * s.trace.len() as u64;
    st.fault("capture_file_read_by_each_analyzer");
    let cut = snap.iter().filter(|x| **x > 0).count() as u64;
    st.fault_n("record_cut_by_the_snap_length", cut);
    for (name, kinds, want) in [("tcp", &TCP_KINDS[..], &t), ("http", &HTTP_KINDS[..], &h)] {
        // uptime fields depend on which instance's tracker saw what when; the file carries no usable clock for them
        let got: Vec<&Obs> = u.iter().filter(|o| kinds.contains(&o.kind.as_str()) && !o.kind.ends_with("uptime")).collect();
        let want: Vec<&Obs> = want.iter().filter(|o| kinds.contains(&o.kind.as_str()) && !o.kind.ends_with("uptime")).collect();
        for o in &want {
            st.ev(&o.kind);
        }
        if got != want {
            let k = got.iter().zip(want.iter()).position(|(a, b)| a != b).unwrap_or(got.len().min(want.len()));
            return Err(Violation::new("field-mismatch", format!("{}:capture-file", name), format!("reading one capture file of {} records ({} cut by the snap length): the unified analyzer reports {} {} results, the {} analyzer {}; first difference at result {}: {} vs {}", s.trace.len(), cut, got.len(), name, name, want.len(), k, got.get(k).map(|o| o.short()).unwrap_or_else(|| "<none>".into()), want.get(k).map(|o| o.short()).unwrap_or_else(|| "<none>".into()))));
        }
    }
    st.nontrivial = !t.is_empty();
    st.sim_ns += s.trace.last().map(|p| p.t).unwrap_or(0);
    Ok(())
}

/// One connection opens, then `n` other clients open theirs (all within the configured capacity `cap`, all alive
/// at once), then the first connection carries its request, its response and later timestamps. What the unified
/// analyzer keeps per connection must still be there exactly when the protocol analyzers' is.
#[derive(Clone, Debug, Serialize, Deserialize)]
pub struct Flood {
    pub n: usize,
    pub cap: usize,
    pub seed: u64,
}

fn run_flood(fl: &Flood, st: &mut RunStats) -> Result<(), Violation> {
    use crate::gen::tcp;
    use crate::pkt::{self, Endpoint};
    clock::arm(1_700_000_000_000);
    let mut ucfg = SutCfg::new(Kind::Unified, fl.cap);
    ucfg.uni = Some((true, true, false, false));
    // matching is off in the unified analyzer of this scenario, so the protocol analyzers run without a database
    ucfg.with_db = false;
    let mut tcfg = SutCfg::new(Kind::Tcp, fl.cap);
    tcfg.with_db = false;
    let mut hcfg = SutCfg::new(Kind::Http, fl.cap);
    hcfg.with_db = false;
    let mut uni = Sut::new(&ucfg).map_err(|e| Violation::new("harness-error", "", e))?;
    let mut tcpa = Sut::new(&tcfg).map_err(|e| Violation::new("harness-error", "", e))?;
    let mut httpa = Sut::new(&hcfg).map_err(|e| Violation::new("harness-error", "", e))?;
    let mut r = Rng::new(fl.seed);
    let hc = tcp::Host { profile: 0, ts_hz: 1000, ts_base: r.u32() >> 2, ttl: 64 };
    let hs = tcp::Host { profile: 1, ts_hz: 250, ts_base: r.u32() >> 2, ttl: 64 };
    let (vc, vs) = (Endpoint::v4(10, 200, 0, 1, 40000), Endpoint::v4(10, 201, 0, 1, 80));
    let req = b"GET /flood HTTP/1.1\r\nHost: flood.example.test\r\nUser-Agent: curl/8.1.2\r\nAccept: */*\r\n\r\n".to_vec();
    let resp = b"HTTP/1.1 200 OK\r\nServer: nginx/1.24.0\r\nContent-Length: 0\r\n\r\n".to_vec();
    let mut step = |seg: &pkt::Seg, compare: bool, what: &str, st: &mut RunStats| -> Result<usize, Violation> {
        let frame = pkt::frame(seg, Framing::Ethernet);
        let u = uni.deliver(&frame);
        let t = tcpa.deliver(&frame);
        let h = httpa.deliver(&frame);
        st.packets += 1;
        if !compare {
            return Ok(0);
        }
        st.evals += 1;
        let mut expect: Vec<Obs> = t.obs.clone();
        expect.extend(h.obs.iter().cloned());
        for o in &expect {
            st.ev(&o.kind);
        }
        if u.obs != expect {
            let missing: Vec<&str> = expect.iter().filter(|e| !u.obs.contains(e)).map(|e| e.kind.as_str()).collect();
            let extra: Vec<&str> = u.obs.iter().filter(|e| !expect.contains(e)).map(|e| e.kind.as_str()).collect();
            let which = missing.first().or(extra.first()).cloned().unwrap_or("?").to_string();
            return Err(Violation::new("field-mismatch", format!("{}:scale", which), format!("{} with {} other connections open (capacity {}): field {} differs\n  protocol analyzers: [{}]\n  unified analyzer:   [{}]", what, fl.n, fl.cap, which, expect.iter().map(|o| o.short()).collect::<Vec<_>>().join(" | "), u.obs.iter().map(|o| o.short()).collect::<Vec<_>>().join(" | "))));
        }
        Ok(expect.len())
    };
    let mut seen = 0usize;
    seen += step(&tcp::syn(&hc, vc, vs, 1000, clock::mono_ns()), true, "the first connection's SYN", st)?;
    clock::advance_ns(1_000_000);
    seen += step(&tcp::syn_ack(&hs, vc, vs, 5000, 1000, clock::mono_ns(), 1), true, "the first connection's SYN+ACK", st)?;
    let hf = tcp::Host { profile: 3, ts_hz: 1000, ts_base: 12345, ttl: 64 };
    for i in 0..fl.n {
        clock::advance_ns(1_000);
        let c = Endpoint::v4(11 + (i >> 24) as u8, (i >> 16) as u8, (i >> 8) as u8, i as u8, 1024 + (i % 60000) as u16);
        let sv = Endpoint::v4(10, 201, 0, 2 + (i % 7) as u8, 80);
        step(&tcp::syn(&hf, c, sv, 7000 + i as u32, clock::mono_ns()), i % 8192 == 0, "another client's SYN", st)?;
    }
    clock::advance_ns(1_500_000_000);
    seen += step(&tcp::data(&hc, vc, vs, 1001, 5001, req.clone(), clock::mono_ns(), 1, pkt::ACK | pkt::PSH), true, "the first connection's request", st)?;
    clock::advance_ns(2_000_000);
    seen += step(&tcp::data(&hs, vs, vc, 5001, 1001 + req.len() as u32, resp, clock::mono_ns(), 1, pkt::ACK | pkt::PSH), true, "the first connection's response", st)?;
    st.fault_n("population_of_simultaneously_open_connections", fl.n as u64);
    st.probe_n("results_compared_on_the_first_connection", seen as u64);
    st.sim_ns = clock::mono_ns();
    st.nontrivial = seen >= 3;
    Ok(())
}

pub struct C20;

fn stateless_tls(frame: &[u8]) -> Result<Vec<Obs>, String> {
    use huginn_net_tls::packet_parser::{parse_packet, IpPacket};
    use pnet::packet::tcp::TcpPacket;
    use pnet::packet::Packet;
    match parse_packet(frame) {
        IpPacket::Ipv4(ip) => {
            let r = huginn_net_tls::process_tls_ipv4(&ip).map_err(|e| format!("{:?}", e))?;
            Ok(match (r.tls_client, TcpPacket::new(ip.payload())) {
                (Some(sig), Some(tcp)) => {
                    let out = huginn_net_tls::TlsClientOutput {
                        source: huginn_net_tls::output::IpPort::new(std::net::IpAddr::V4(ip.get_source()), tcp.get_source()),
                        destination: huginn_net_tls::output::IpPort::new(std::net::IpAddr::V4(ip.get_destination()), tcp.get_destination()),
                        sig,
                    };
                    vec![sut::obs_tls(&out)]
                }
                _ => vec![],
            })
        }
        IpPacket::Ipv6(ip) => {
            let r = huginn_net_tls::process_tls_ipv6(&ip).map_err(|e| format!("{:?}", e))?;
            Ok(match (r.tls_client, TcpPacket::new(ip.payload())) {
                (Some(sig), Some(tcp)) => {
                    let out = huginn_net_tls::TlsClientOutput {
                        source: huginn_net_tls::output::IpPort::new(std::net::IpAddr::V6(ip.get_source()), tcp.get_source()),
                        destination: huginn_net_tls::output::IpPort::new(std::net::IpAddr::V6(ip.get_destination()), tcp.get_destination()),
                        sig,
                    };
                    vec![sut::obs_tls(&out)]
                }
                _ => vec![],
            })
        }
        IpPacket::None => Err("no-ip".into()),
    }
}

/// the part of a rendered result that is "raw" (independent of matching): the signature, or the MTU value
fn sig_part(text: &str) -> &str {
    if let Some(i) = text.find("sig: ") {
        return &text[i..];
    }
    if text.starts_with("MTUOutput") {
        return text.rfind("mtu: ").map(|i| &text[i..]).unwrap_or(text);
    }
    text
}

const TCP_KINDS: [&str; 5] = ["syn", "syn_ack", "mtu", "client_uptime", "server_uptime"];
const HTTP_KINDS: [&str; 2] = ["http_request", "http_response"];

impl Prop for C20 {
    type Scn = Scn;
    const ID: &'static str = "C20";
    const ENGINE: &'static str = crate::NETSIM_ENGINE;

    fn rule() -> &'static str {
        "one evaluation = one frame delivered in lockstep to a HuginnNet instance per switch combination and to the TCP, HTTP and stateless TLS analyzers at the same simulated time, compared field by field; non-trivial = the run contains frames that yield TCP, HTTP and TLS results and at least one malformed frame; distinct = distinct event-log hash"
    }

    fn runs(tier: Tier) -> u64 {
        tier.pick(6_000, 400_000)
    }

    fn generate(r: &mut Rng, tier: Tier, _idx: u64) -> Scn {
        // scale scenario, one run in 1500: a little more than 2^16 / 2^17 / 2^18 connections open at once
        if r.chance(1, 1500) {
            let n = (1usize << *r.pick(&[16u32, 16, 17, 18])) + r.urange(50, 500);
            return Scn { cap: 0, trace: vec![], configs: vec![], boundaries: vec![], db_variant: 0, pcap_snap: None, flood: Some(Flood { n, cap: *r.pick(&[n + 1000, 2 * n, 100_000_000]), seed: r.next_u64() }) };
        }
        let n = r.urange(2, 6);
        let v6 = r.chance(1, 5);
        let eps = conn::endpoints(r, n, v6);
        let o = ConnOpts { v6, framing: *r.pick(&[Framing::Ethernet, Framing::Ethernet, Framing::RawIp, Framing::Null1e]), max_parts: 3, gap_lo: 50_000, gap_hi: 30_000_000, tls_single_segment: true };
        let mut conns = vec![];
        for (c, s) in &eps {
            let ck = *r.pick(&[ConnKind::TcpOnly, ConnKind::Tls, ConnKind::Http1, ConnKind::Http1, ConnKind::Http2, ConnKind::Http2Hostile, ConnKind::Garbage, ConnKind::TlsThenHttpResponse, ConnKind::TlsThenHttpResponse]);
            conns.push(conn::build(r, ck, *c, *s, &o));
        }
        let lens: Vec<usize> = conns.iter().map(|c| c.steps.len()).collect();
        let order = conn::merge_order(r, &lens, *r.clone().pick(&[MergeMode::Uniform, MergeMode::RoundRobin, MergeMode::Bursts]));
        let mut trace = conn::to_trace(&conns, &order);
        // malformed frames: corrupt some, splice garbage between others
        let nf = r.urange(0, 4);
        for _ in 0..nf {
            if trace.is_empty() {
                break;
            }
            let i = r.usize_below(trace.len());
            let f = *r.pick(&Fault::ALL);
            let mut fr = trace[i].frame.clone();
            if tap::apply(r, f, &mut fr) {
                trace[i].frame = fr;
                trace[i].conn = usize::MAX - 1 - f as usize; // tag: corrupted by fault f
            }
        }
        for _ in 0..r.urange(0, 2) {
            let i = r.usize_below(trace.len() + 1);
            let t = if i == 0 { 0 } else { trace[i - 1].t + 500 };
            trace.insert(i, Timed { t, frame: tap::splice(r), conn: usize::MAX });
        }
        let configs: Vec<u8> = match tier {
            Tier::Quick => {
                let mut v: Vec<u8> = vec![0b1111, 0b0111];
                for _ in 0..4 {
                    v.push(r.below(16) as u8);
                }
                v.sort();
                v.dedup();
                v
            }
            Tier::Thorough => (0..16).collect(),
        };
        let boundaries = if r.chance(1, 4) { (0..r.urange(1, 3)).map(|_| r.usize_below(trace.len() + 1)).collect() } else { vec![] };
        // file mode, one Ethernet-framed trace in eight: a fifth of the records cut by a snap length (never below the
        // headers' worth of 54..128 bytes, as `tcpdump -s` does)
        if o.framing == Framing::Ethernet && r.chance(1, 8) {
            let snap: Vec<usize> = trace.iter().map(|p| if r.chance(1, 5) { *r.pick(&[54usize, 60, 64, 68, 96, 128]).min(&p.frame.len()) } else { 0 }).collect();
            return Scn { cap: *r.pick(&[32usize, 100, 1000]), trace, configs: vec![], boundaries: vec![], db_variant: 0, flood: None, pcap_snap: Some(snap) };
        }
        Scn { cap: *r.pick(&[32usize, 100, 1000]), trace, configs, boundaries, db_variant: if r.chance(1, 4) { 1 + r.below(sut::DB_VARIANTS as u64) as u32 } else { 0 }, flood: None, pcap_snap: None }
    }

    fn systematic(tier: Tier) -> Vec<Scn> {
        // once per check: more than 2^20 connections open at once on analyzers configured for two million (in the
        // quick tier the build with overflow checks and debug assertions, four times slower, stops above 2^17)
        let n = if tier == Tier::Quick && crate::NETSIM_ENGINE == "netsim" { (1 << 17) + 200 } else { (1 << 20) + 200 };
        vec![Scn { cap: 0, trace: vec![], configs: vec![], boundaries: vec![], db_variant: 0, pcap_snap: None, flood: Some(Flood { n, cap: 2_000_000, seed: 20 }) }]
    }

    fn run_wall_limit_s() -> u64 {
        300
    }

    fn run(s: &Scn, st: &mut RunStats) -> Result<(), Violation> {
        if let Some(fl) = &s.flood {
            sut::set_db_variant(0);
            return run_flood(fl, st);
        }
        if let Some(snap) = &s.pcap_snap {
            return run_pcap(s, snap, st);
        }
        sut::set_db_variant(s.db_variant);
        if s.db_variant != 0 {
            st.fault("rewritten_signature_database");
        }
        st.evals = 0;
        let mut saw = (false, false, false, false);
        for &cfgbits in &s.configs {
            let (t_on, h_on, l_on, m_on) = (cfgbits & 1 != 0, cfgbits & 2 != 0, cfgbits & 4 != 0, cfgbits & 8 != 0);
            clock::arm(1_700_000_000_000);
            // constructor rule: database required iff matching is on and TCP or HTTP is on
            {
                let r = huginn_net::HuginnNet::new(None, s.cap, Some(sut::uni_config(Some((t_on, h_on, l_on, m_on)))));
                let need = m_on && (t_on || h_on);
                if r.is_err() != need {
                    return Err(Violation::new("constructor-rule", format!("cfg{:04b}", cfgbits), format!("HuginnNet::new(None, .., tcp={} http={} tls={} matcher={}) -> {}", t_on, h_on, l_on, m_on, if r.is_err() { "Err" } else { "Ok" })));
                }
            }
            let mut ucfg = SutCfg::new(Kind::Unified, s.cap);
            ucfg.uni = Some((t_on, h_on, l_on, m_on));
            ucfg.with_db = true;
            let mut uni = Sut::new(&ucfg).map_err(|e| Violation::new("harness-error", "", e))?;
            // reference for "raw signatures unchanged when matching is off": same switches, matcher on
            let mut uni_m = if !m_on {
                let mut c2 = ucfg.clone();
                c2.uni = Some((t_on, h_on, l_on, true));
                Some(Sut::new(&c2).map_err(|e| Violation::new("harness-error", "", e))?)
            } else {
                None
            };
            let mut tcfg = SutCfg::new(Kind::Tcp, s.cap);
            tcfg.with_db = m_on;
            let mut hcfg = SutCfg::new(Kind::Http, s.cap);
            hcfg.with_db = m_on;
            let mut tcp = Sut::new(&tcfg).map_err(|e| Violation::new("harness-error", "", e))?;
            let mut http = Sut::new(&hcfg).map_err(|e| Violation::new("harness-error", "", e))?;
            #[allow(unused_mut)]
            let mut crossed = false;
            for (i, p) in s.trace.iter().enumerate() {
                clock::advance_to_ns(p.t);
                #[cfg(not(huginn_net_verif_sched))]
                if s.boundaries.contains(&i) {
                    for a in [Some(&mut uni), uni_m.as_mut(), Some(&mut tcp), Some(&mut http)].into_iter().flatten() {
                        a.capture_boundary().map_err(|e| Violation::new("harness-error", "", e))?;
                    }
                    st.fault("capture_source_ends_and_restarts");
                    crossed = true;
                }
                st.evals += 1;
                st.packets += 1;
                let u = uni.deliver(&p.frame);
                let um = uni_m.as_mut().map(|x| x.deliver(&p.frame));
                let t = if t_on { Some(tcp.deliver(&p.frame)) } else { None };
                let h = if h_on { Some(http.deliver(&p.frame)) } else { None };
                let l = if l_on { Some(stateless_tls(&p.frame)) } else { None };
                for o in &u.obs {
                    st.ev(&o.text);
                    if o.kind == "http_request" {
                        for d in ["diagnosis: Generic", "diagnosis: Dishonest", "diagnosis: Anonymous", "diagnosis: None"] {
                            if o.text.contains(d) {
                                st.probe(&format!("http_request_{}", d.replace(": ", "_").to_lowercase()));
                            }
                        }
                        if o.text.contains("browser: Some(") {
                            st.probe("http_request_matched_a_database_signature");
                        }
                    }
                }
                if p.conn >= usize::MAX - 64 {
                    saw.3 = true;
                    st.fault(if p.conn == usize::MAX { "splice" } else { Fault::ALL[(usize::MAX - 1 - p.conn).min(Fault::ALL.len() - 1)].name() });
                }
                // disabled protocols contribute nothing
                for o in &u.obs {
                    let k = o.kind.as_str();
                    if (!t_on && TCP_KINDS.contains(&k)) || (!h_on && HTTP_KINDS.contains(&k)) || (!l_on && k == "tls") {
                        return Err(Violation::new("disabled-protocol-reports", format!("cfg{:04b}:{}", cfgbits, k), format!("frame {}: {} reported although its protocol is disabled", i, k)));
                    }
                }
                let all_ok = t.as_ref().map(|x| x.err.is_none()).unwrap_or(true) && h.as_ref().map(|x| x.err.is_none()).unwrap_or(true) && l.as_ref().map(|x| x.is_ok()).unwrap_or(true);
                if !all_ok {
                    st.probe("frame_rejected_by_an_enabled_analyzer");
                    continue;
                }
                let mut expect: Vec<Obs> = vec![];
                if let Some(t) = &t {
                    expect.extend(t.obs.iter().cloned());
                }
                if let Some(h) = &h {
                    expect.extend(h.obs.iter().cloned());
                }
                if let Some(Ok(l)) = &l {
                    expect.extend(l.iter().cloned());
                }
                for o in &expect {
                    match o.kind.as_str() {
                        "tls" => saw.2 = true,
                        "http_request" | "http_response" => saw.1 = true,
                        _ => saw.0 = true,
                    }
                }
                // across a capture boundary the TCP analyzer starts a fresh timestamp tracker by design (its loop owns
                // the tracker), so uptime fields are compared only within the first capture run
                let u_all = u;
                let u = if crossed { sut::PktOut { obs: u_all.obs.iter().filter(|o| !o.kind.ends_with("uptime")).cloned().collect(), err: u_all.err.clone() } } else { u_all.clone() };
                if crossed {
                    expect.retain(|o| !o.kind.ends_with("uptime"));
                }
                if u.obs != expect {
                    let missing: Vec<&str> = expect.iter().filter(|e| !u.obs.contains(e)).map(|e| e.kind.as_str()).collect();
                    let extra: Vec<&str> = u.obs.iter().filter(|e| !expect.contains(e)).map(|e| e.kind.as_str()).collect();
                    let which = missing.first().or(extra.first()).cloned().unwrap_or("?");
                    let eo = expect.iter().find(|e| e.kind == which).map(|e| e.text.chars().take(500).collect::<String>()).unwrap_or_else(|| "<nothing>".into());
                    let uo = u.obs.iter().find(|e| e.kind == which).map(|e| e.text.chars().take(500).collect::<String>()).unwrap_or_else(|| "<nothing>".into());
                    return Err(Violation::new("field-mismatch", format!("{}{}", which, if m_on { "" } else { ":matcher-off" }), format!("frame {} cfg tcp={} http={} tls={} matcher={}: field {} differs\n  protocol analyzer: {}\n  unified analyzer:  {}", i, t_on, h_on, l_on, m_on, which, eo, uo)));
                }
                // matching off: qualities Disabled, raw signatures as with matching on
                let u = u_all;
                if let Some(um) = &um {
                    for o in &u.obs {
                        if o.text.contains("quality: Matched") || o.text.contains("quality: NotMatched") {
                            return Err(Violation::new("matcher-off-quality", o.kind.clone(), format!("frame {}: matching disabled but {} carries a match quality: {}", i, o.kind, o.text.chars().take(300).collect::<String>())));
                        }
                        if let Some(om) = um.obs.iter().find(|x| x.kind == o.kind) {
                            if sig_part(&om.text) != sig_part(&o.text) {
                                return Err(Violation::new("matcher-off-signature", o.kind.clone(), format!("frame {}: raw signature of {} changes with the matcher switch\n  on:  {}\n  off: {}", i, o.kind, sig_part(&om.text), sig_part(&o.text))));
                            }
                        } else {
                            return Err(Violation::new("matcher-off-signature", o.kind.clone(), format!("frame {}: {} reported only with matching off", i, o.kind)));
                        }
                    }
                    if um.obs.len() != u.obs.len() {
                        return Err(Violation::new("matcher-off-signature", "count", format!("frame {}: {} results with matching on, {} with matching off", i, um.obs.len(), u.obs.len())));
                    }
                }
            }
        }
        st.sim_ns += s.trace.last().map(|p| p.t).unwrap_or(0);
        st.nontrivial = saw.0 && saw.1 && saw.2 && saw.3;
        if saw.0 {
            st.probe("tcp_result_compared");
        }
        if saw.1 {
            st.probe("http_result_compared");
        }
        if saw.2 {
            st.probe("tls_result_compared");
        }
        Ok(())
    }

    fn shrink(s: &Scn) -> Vec<Scn> {
        let mut out = vec![];
        if let Some(fl) = &s.flood {
            if fl.n > 2000 {
                let mut x = s.clone();
                x.flood = Some(Flood { n: fl.n * 7 / 8, ..fl.clone() });
                out.push(x);
            }
            return out;
        }
        if s.configs.len() > 1 {
            for c in &s.configs {
                let mut x = s.clone();
                x.configs = vec![*c];
                out.push(x);
            }
        }
        if !s.boundaries.is_empty() {
            let mut x = s.clone();
            x.boundaries.clear();
            out.push(x);
        }
        let n = s.trace.len();
        // drop halves, then single frames
        if n > 4 {
            let mut x = s.clone();
            x.trace.truncate(n / 2);
            out.push(x);
            let mut y = s.clone();
            y.trace.drain(..n / 2);
            y.boundaries = y.boundaries.iter().map(|b| b.saturating_sub(n / 2)).collect();
            out.push(y);
        }
        for i in (0..n).rev() {
            let mut x = s.clone();
            x.trace.remove(i);
            for b in x.boundaries.iter_mut() {
                if *b > i {
                    *b -= 1;
                }
            }
            out.push(x);
        }
        out
    }
}
