//! C19 — uptime estimates are sound for steady clocks and withheld otherwise.
//!
//! Two simulated hosts with TCP timestamp clocks exchange segments; the simulator owns the wall
//! clock (hook H1) and the monotonic clock behind the tracker's TTL cache, and advances them by
//! gaps drawn around the documented boundaries.  Every reported estimate is compared, packet by
//! packet, with a small executable model of the *statement*.

use crate::gen::tcp::{self, Host};
use crate::pkt::{self, Endpoint, Framing, Seg};
use crate::rng::Rng;
use crate::runner::{Prop, RunStats, Tier, Violation};
use crate::sut::{Kind, Sut, SutCfg};
use huginn_net_verif_rt::clock;
use serde::{Deserialize, Serialize};
use std::collections::BTreeMap;

#[derive(Clone, Debug, Serialize, Deserialize)]
pub struct Pkt {
    /// simulated gap before this packet (ns)
    pub gap_ns: u64,
    /// fault: wall-clock jump applied just before delivery (ms, either sign); 0 = none
    pub wall_jump_ms: i64,
    pub seg: Seg,
    /// TSval carried (None = no timestamp option)
    pub tsval: Option<u32>,
}

#[derive(Clone, Debug, Serialize, Deserialize)]
pub struct Scn {
    pub kind: Kind,
    pub framing: Framing,
    pub cap: usize,
    pub pkts: Vec<Pkt>,
}

pub struct C19;

// ----------------------------------------------------------------------------------------------
// The model of the statement

#[derive(Clone, Debug, PartialEq)]
pub struct Est {
    pub freq: u32,
    pub days: u32,
    pub hours: u32,
    pub min: u32,
    pub up_mod_days: u32,
    pub client: bool,
}

fn table(raw: f64) -> u32 {
    let f = raw as u32;
    match f {
        0 => 1,
        1..=10 => f,
        11..=50 => (f + 3) / 5 * 5,
        51..=100 => (f + 7) / 10 * 10,
        101..=500 => (f + 33) / 50 * 50,
        _ => (f + 67) / 100 * 100,
    }
}

fn snap(raw: f64, base: f64) -> Option<u32> {
    let k = (raw / base).round();
    if k <= 0.0 {
        return None;
    }
    if (raw / k - base).abs() <= base * 0.10 {
        Some((base * k) as u32)
    } else {
        None
    }
}

/// the documented grid: snap to a multiple of 1000 Hz, else of 100 Hz, when within 10 %; else the p0f range table
pub fn grid(raw: f64) -> u32 {
    if let Some(f) = snap(raw, 1000.0) {
        return f;
    }
    if let Some(f) = snap(raw, 100.0) {
        return f;
    }
    table(raw)
}

/// every grid value reachable within a hair of `raw` (decision boundaries are not the statement's business)
fn grid_set(raw: f64) -> Vec<u32> {
    let mut v = vec![grid(raw), grid(raw * (1.0 - 1e-9)), grid(raw * (1.0 + 1e-9))];
    v.sort();
    v.dedup();
    v
}

fn estimate(ts: u32, freq: u32, client: bool) -> Est {
    let f = freq.max(1) as u64;
    let t = ts as u64;
    Est {
        freq,
        days: (t / (f * 86400)) as u32,
        hours: ((t / (f * 3600)) % 24) as u32,
        min: ((t / (f * 60)) % 60) as u32,
        up_mod_days: ((1u64 << 32) / (f * 86400)) as u32,
        client,
    }
}

/// every tracker entry lives at least this long (the shortest TTL the code has ever documented: 30 s)
const ENTRY_LIVES_AT_LEAST_NS: u64 = 30_000_000_000;
const MARKER_LIVES_AT_LEAST_NS: u64 = 590_000_000_000;

#[derive(Clone, Debug)]
enum St {
    Ref { ts: u32, ms: u64, client: bool, mono_ns: u64 },
    /// marked bad at monotonic time `at_ns`
    Bad { at_ns: u64 },
    /// the entry may or may not have expired (gap beyond every documented window): stop judging this endpoint
    Unknown,
}

enum Expect {
    Nothing,
    /// any of these estimates
    OneOf(Vec<Est>),
    /// the statement does not decide (fewer than 5 ticks of movement): nothing, or one of these
    Either(Vec<Est>),
    Unjudged,
}

fn role_is_client(flags: u8, sport: u16, dport: u16) -> bool {
    let syn = flags & pkt::SYN != 0;
    let ack = flags & pkt::ACK != 0;
    if syn && !ack {
        true
    } else if syn && ack {
        false
    } else {
        sport > 1024 && dport <= 1024
    }
}

// ----------------------------------------------------------------------------------------------

fn parse_uptime(text: &str) -> Option<Est> {
    // UptimeOutput { source: .., destination: .., role: Client, days: 1, hours: 2, min: 3, up_mod_days: 49, freq: 1000.0 }
    let get = |k: &str| -> Option<String> {
        let i = text.find(&format!("{}: ", k))? + k.len() + 2;
        let rest = &text[i..];
        let end = rest.find(|c| c == ',' || c == ' ' || c == '}').unwrap_or(rest.len());
        Some(rest[..end].to_string())
    };
    Some(Est {
        freq: get("freq")?.parse::<f64>().ok()? as u32,
        days: get("days")?.parse().ok()?,
        hours: get("hours")?.parse().ok()?,
        min: get("min")?.parse().ok()?,
        up_mod_days: get("up_mod_days")?.parse().ok()?,
        client: get("role")? == "Client",
    })
}

impl Prop for C19 {
    type Scn = Scn;
    const ID: &'static str = "C19";
    const ENGINE: &'static str = crate::NETSIM_ENGINE;

    fn rule() -> &'static str {
        "one evaluation = one timestamped segment delivered to the TCP or unified analyzer at a simulated wall/monotonic time, judged against the executable model of the statement; non-trivial = the run contains at least one pair the model expects an estimate for AND at least one it expects to be withheld; distinct = distinct event-log hash ((observed ms, TSval, result) sequence)"
    }

    fn runs(tier: Tier) -> u64 {
        tier.pick(150_000, 8_000_000)
    }

    fn generate(r: &mut Rng, tier: Tier, _idx: u64) -> Scn {
        let _ = tier;
        let kind = if r.chance(1, 4) { Kind::Unified } else { Kind::Tcp };
        let v6 = r.chance(1, 5);
        let nconn = if r.chance(1, 3) { 2 } else { 1 };
        let mut pkts: Vec<Pkt> = vec![];
        let twin = r.chance(1, 4);
        let mut first_eps = (Endpoint::v4(10, 0, 0, 1, 1), Endpoint::v4(10, 0, 0, 2, 2));
        // rates: boundary and OS-typical values, every integer now and then, and out-of-range ones
        let pick_rate = |r: &mut Rng| -> f64 {
            match r.below(10) {
                0 => *r.pick(&[1.0, 2.0, 10.0, 11.0, 50.0, 51.0, 100.0, 101.0, 500.0, 501.0, 1000.0, 1499.0, 1500.0]),
                1 => *r.pick(&[100.0, 250.0, 1000.0, 200.0, 300.0, 1200.0, 1400.0, 128.0, 64.0, 512.0, 1024.0]),
                2 => *r.pick(&[0.2, 0.9, 1501.0, 1600.0, 5000.0, 100000.0]),
                3 | 4 => r.range(1, 1500) as f64,
                5 => r.range(1, 1500) as f64 + r.below(1000) as f64 / 1000.0,
                6 => 100.0 * r.range(1, 15) as f64 * (0.88 + r.below(24) as f64 / 100.0),
                _ => *r.pick(&[100.0, 250.0, 1000.0]),
            }
        };
        let gaps_ms: [u64; 26] = [1, 10, 24, 25, 26, 40, 99, 100, 101, 500, 1000, 2500, 10_000, 29_900, 30_100, 45_000, 120_000, 599_900, 600_000, 600_100, 700_000, 5, 200_000, 300_000, 350_000, 450_000];
        for ci in 0..nconn {
            let cport = if r.chance(1, 8) { 1000 } else { 40000 + r.below(1000) as u16 + ci as u16 * 1000 };
            let sport = *r.pick(&[80u16, 443, 22, 1024, 1025, 8080, 8443]);
            let (c, s) = if v6 { (Endpoint::v6(1, cport), Endpoint::v6(2, sport)) } else { (Endpoint::v4(10, 0, 0, 1, cport), Endpoint::v4(10, 0, 0, 2, sport)) };
            // the second connection is sometimes the IPv4-mapped IPv6 twin of the first (same ports, ::ffff:a.b.c.d):
            // a different connection that must be tracked separately
            let (c, s) = if ci == 1 && !v6 && twin {
                let m = |e: &Endpoint, base: &Endpoint| -> Endpoint {
                    match base.ip {
                        std::net::IpAddr::V4(a) => Endpoint { ip: std::net::IpAddr::V6(a.to_ipv6_mapped()), port: e.port },
                        _ => *e,
                    }
                };
                (m(&first_eps.0, &first_eps.0), m(&first_eps.1, &first_eps.1))
            } else {
                (c, s)
            };
            if ci == 0 {
                first_eps = (c, s);
            }
            let rate_c = pick_rate(r);
            let rate_s = pick_rate(r);
            // per-host clock behaviour
            let mode_c = r.below(8); // 0 = jitter, 1 = stall, 2 = backward step, else steady
            let mode_s = r.below(8);
            let base_c: u32 = if r.chance(1, 6) { 0xffff_f000u32.wrapping_add(r.below(4096) as u32) } else { r.u32() };
            let base_s: u32 = if r.chance(1, 6) { 0xffff_f000u32.wrapping_add(r.below(4096) as u32) } else { r.u32() };
            let hc = Host { profile: *r.pick(&[0usize, 2, 3, 4]), ts_hz: 1000, ts_base: 0, ttl: 64 };
            let hs = Host { profile: *r.pick(&[0usize, 2, 3, 4]), ts_hz: 1000, ts_base: 0, ttl: 64 };
            let n = r.urange(2, 9);
            let mut t_ms: u64 = 0;
            let mut conn: Vec<Pkt> = vec![];
            let tsv = |base: u32, rate: f64, mode: u64, t_ms: u64, k: usize, r: &mut Rng| -> u32 {
                let ticks = (t_ms as f64 * rate / 1000.0).floor();
                let mut v = base.wrapping_add(ticks as u64 as u32);
                match mode {
                    0 => v = v.wrapping_add(r.below(7) as u32).wrapping_sub(3),
                    1 if k >= 2 => v = base.wrapping_add(1),
                    2 if k >= 2 && r.chance(1, 2) => v = v.wrapping_sub(r.range(1, 200_000) as u32),
                    _ => {}
                }
                v
            };
            for k in 0..n {
                let gap_ms = if k == 0 { r.below(50) } else { *r.pick(&gaps_ms) + if r.chance(1, 3) { r.below(20) } else { 0 } };
                t_ms += gap_ms;
                let from_client = match k {
                    0 => true,
                    1 => false,
                    _ => r.chance(1, 2),
                };
                let (from, to, host, base, rate, mode) = if from_client { (c, s, &hc, base_c, rate_c, mode_c) } else { (s, c, &hs, base_s, rate_s, mode_s) };
                let val = tsv(base, rate, mode, t_ms, k, r);
                let has_ts = !r.chance(1, 12);
                // later segments: mostly plain ACK/data, one in six a retransmitted handshake segment of that direction
                let rexmit = k >= 2 && r.chance(1, 6);
                let mut seg = match k {
                    0 => tcp::syn(host, c, s, 1000, 0),
                    1 => tcp::syn_ack(host, c, s, 5000, 1000, 0, 0),
                    _ if rexmit && from_client => tcp::syn(host, c, s, 1000, 0),
                    _ if rexmit => tcp::syn_ack(host, c, s, 5000, 1000, 0, 0),
                    _ => tcp::data(host, from, to, 1001 + k as u32, 5001, if r.chance(1, 2) { vec![b'x'; 10] } else { vec![] }, 0, 0, pkt::ACK),
                };
                // flag bits that do not take part in the role rule (ECN negotiation sets ECE/CWR on the handshake)
                if r.chance(1, 5) {
                    seg.flags |= *r.pick(&[0xc0u8, 0x40, 0x80, 0x20, 0x08, 0xc8]);
                }
                let k_opts = if rexmit { if from_client { 0 } else { 1 } } else { k };
                // rewrite the option bytes with our own TSval (or strip the option)
                seg.tcp_opts = if has_ts {
                    let mut o = if k_opts < 2 { pkt::opt::mss(1460) } else { vec![1, 1] };
                    if k_opts < 2 {
                        o.extend(pkt::opt::nop());
                        o.extend(pkt::opt::nop());
                    }
                    // the echoed timestamp is the peer's business: zero, small, arbitrary, or by coincidence this
                    // endpoint's own value (both ends reading one clock, as on a loopback or same-host connection)
                    let ecr = match r.below(8) {
                        0 => val,
                        1 => val.wrapping_sub(1),
                        2 => r.u32(),
                        3 => 0,
                        _ => if k_opts == 0 { 0 } else { 1 },
                    };
                    o.extend(pkt::opt::ts(val, ecr));
                    o
                } else if k_opts < 2 {
                    pkt::opt::mss(1460)
                } else {
                    vec![]
                };
                let wall_jump_ms = if r.chance(1, 40) { *r.pick(&[-5000i64, -30, 30, 5000, 700_000, -700_000, 1 << 32, (1 << 32) + 1000, 2 << 32, -(1 << 32), 86_400_000]) } else { 0 };
                conn.push(Pkt { gap_ns: gap_ms * 1_000_000 + r.below(1_000_000), wall_jump_ms, seg, tsval: if has_ts { Some(val) } else { None } });
            }
            if ci == 0 {
                pkts = conn;
            } else {
                // merge the second connection order-preservingly (gaps are kept relative: good enough, the model uses observed times)
                let mut merged = vec![];
                let (mut a, mut b) = (pkts.into_iter().peekable(), conn.into_iter().peekable());
                while a.peek().is_some() || b.peek().is_some() {
                    let take_a = b.peek().is_none() || (a.peek().is_some() && r.chance(1, 2));
                    merged.push(if take_a { a.next().unwrap() } else { b.next().unwrap() });
                }
                pkts = merged;
            }
        }
        Scn { kind, framing: *r.pick(&[Framing::Ethernet, Framing::RawIp]), cap: *r.pick(&[4usize, 64, 1000]), pkts }
    }

    fn systematic(tier: Tier) -> Vec<Scn> {
        // every integer rate 1..=1500 x a set of boundary gaps, as SYN + one ACK from the client to port 80
        let mut out = vec![];
        let gaps: Vec<u64> = tier.pick(vec![100, 1000, 40_000], vec![25, 26, 99, 100, 101, 1000, 10_000, 29_900, 30_100, 599_900, 600_000]);
        let step = tier.pick(7, 1);
        let mut rate = 1u32;
        while rate <= 1500 {
            for g in &gaps {
                let c = Endpoint::v4(10, 1, 0, 1, 50000);
                let s = Endpoint::v4(10, 1, 0, 2, 80);
                let base = 1_000_000u32;
                let ticks = (*g as u128 * rate as u128 / 1000) as u32;
                let mk = |k: usize, val: u32, gap_ms: u64| {
                    let h = Host { profile: 0, ts_hz: 1000, ts_base: 0, ttl: 64 };
                    let mut seg = if k == 0 { tcp::syn(&h, c, s, 1000, 0) } else { tcp::data(&h, c, s, 1001, 1, vec![], 0, 0, pkt::ACK) };
                    let mut o = if k == 0 { pkt::opt::mss(1460) } else { vec![] };
                    o.extend(pkt::opt::nop());
                    o.extend(pkt::opt::nop());
                    o.extend(pkt::opt::ts(val, 0));
                    seg.tcp_opts = o;
                    Pkt { gap_ns: gap_ms * 1_000_000, wall_jump_ms: 0, seg, tsval: Some(val) }
                };
                out.push(Scn { kind: Kind::Tcp, framing: Framing::Ethernet, cap: 16, pkts: vec![mk(0, base, 0), mk(1, base.wrapping_add(ticks), *g)] });
            }
            rate += step;
        }
        // the rate bounds from both sides at many intervals, odd and even numbers of milliseconds up to the 10-minute
        // limit: tick counts that put the pair's rate just below, on and just above 1 Hz and 1500 Hz
        {
            let c = Endpoint::v4(10, 1, 0, 5, 50002);
            let s = Endpoint::v4(10, 1, 0, 6, 80);
            let mk = |k: usize, val: u32, gap_ms: u64| {
                let h = Host { profile: 0, ts_hz: 1000, ts_base: 0, ttl: 64 };
                let mut seg = if k == 0 { tcp::syn(&h, c, s, 1000, 0) } else { tcp::data(&h, c, s, 1001, 1, vec![], 0, 0, pkt::ACK) };
                let mut o = if k == 0 { pkt::opt::mss(1460) } else { vec![] };
                o.extend(pkt::opt::nop());
                o.extend(pkt::opt::nop());
                o.extend(pkt::opt::ts(val, 0));
                seg.tcp_opts = o;
                Pkt { gap_ns: gap_ms * 1_000_000, wall_jump_ms: 0, seg, tsval: Some(val) }
            };
            let mut gaps: Vec<u64> = vec![25, 26, 27, 33, 99, 101, 667, 999, 1001, 2001, 10_001, 29_999, 100_001, 333_333, 500_001, 500_003, 550_001, 599_997, 599_999, 600_000];
            if tier == Tier::Thorough {
                gaps.extend((500_001u64..600_000).step_by(2_003));
            }
            for ms in gaps {
                let mut ticks: Vec<u64> = vec![];
                for (num, den) in [(3u64, 2u64), (1, 1000)] {
                    let t = ms * num / den;
                    ticks.extend([t.saturating_sub(1), t, t + 1, t + 2]);
                }
                ticks.sort();
                ticks.dedup();
                for t in ticks {
                    if t == 0 || t > 0x7fff_ffff {
                        continue;
                    }
                    out.push(Scn { kind: Kind::Tcp, framing: Framing::Ethernet, cap: 16, pkts: vec![mk(0, 1_000_000, 0), mk(1, 1_000_000u32.wrapping_add(t as u32), ms)] });
                }
            }
        }
        // unit boundaries of the reported uptime: the later TSval sits exactly on (and one tick either side of) a
        // whole number of days, hours or minutes at every value of the frequency grid
        let mut grid_values: Vec<u32> = (1..=1500u32).map(|r| grid(r as f64)).collect();
        grid_values.sort();
        grid_values.dedup();
        let days: Vec<u64> = tier.pick(vec![1, 2, 4, 16, 31, 64, 121, 256, 497], (1..=64).chain([100, 121, 127, 128, 242, 255, 256, 300, 365, 484, 497, 512, 1000, 2000, 4000, 20000, 49710].into_iter()).collect());
        for f in &grid_values {
            let f = *f as u64;
            for unit in [86_400u64, 3_600, 60] {
                for d in &days {
                    let boundary = d * f * unit;
                    if boundary > 0xffff_ffff || boundary < 2 * f {
                        continue;
                    }
                    for delta in [-1i64, 0, 1] {
                        let later = (boundary as i64 + delta) as u64;
                        if later > 0xffff_ffff {
                            continue;
                        }
                        let c = Endpoint::v4(10, 1, 0, 3, 50001);
                        let s = Endpoint::v4(10, 1, 0, 4, 80);
                        let mk = |k: usize, val: u32, gap_ms: u64| {
                            let h = Host { profile: 0, ts_hz: 1000, ts_base: 0, ttl: 64 };
                            let mut seg = if k == 0 { tcp::syn(&h, c, s, 1000, 0) } else { tcp::data(&h, c, s, 1001, 1, vec![], 0, 0, pkt::ACK) };
                            let mut o = if k == 0 { pkt::opt::mss(1460) } else { vec![] };
                            o.extend(pkt::opt::nop());
                            o.extend(pkt::opt::nop());
                            o.extend(pkt::opt::ts(val, 0));
                            seg.tcp_opts = o;
                            Pkt { gap_ns: gap_ms * 1_000_000, wall_jump_ms: 0, seg, tsval: Some(val) }
                        };
                        // one second apart at exactly f ticks per second
                        out.push(Scn { kind: Kind::Tcp, framing: Framing::Ethernet, cap: 16, pkts: vec![mk(0, (later - f) as u32, 0), mk(1, later as u32, 1000)] });
                    }
                }
            }
        }
        out
    }

    fn run(scn: &Scn, st: &mut RunStats) -> Result<(), Violation> {
        clock::arm(1_700_000_000_000);
        let mut cfg = SutCfg::new(scn.kind, scn.cap);
        cfg.with_db = true;
        let mut sut = Sut::new(&cfg).map_err(|e| Violation::new("harness-error", "", e))?;
        let mut model: BTreeMap<(Endpoint, Endpoint), St> = BTreeMap::new();
        let mut distinct_keys = 0usize;
        // predicate for known-finding matching: does the port heuristic disagree with itself / the
        // handshake flags for some directed endpoint of this scenario?
        let flips_exist = {
            let mut roles: BTreeMap<(Endpoint, Endpoint), Vec<bool>> = BTreeMap::new();
            for p in &scn.pkts {
                if p.tsval.is_some() {
                    roles.entry((p.seg.src, p.seg.dst)).or_default().push(role_is_client(p.seg.flags, p.seg.src.port, p.seg.dst.port));
                }
            }
            roles.values().any(|v| v.iter().any(|x| *x != v[0]))
        };
        if flips_exist {
            st.probe("scenario_where_port_heuristic_disagrees_with_handshake_role");
        }
        let kname = |base: &str| -> String { base.to_string() };
        let mut last_jump: Option<usize> = None;
        let mut ref_idx: BTreeMap<(Endpoint, Endpoint), usize> = BTreeMap::new();
        let mut saw_est = false;
        let mut saw_withheld = false;
        st.evals = 0;
        for (i, p) in scn.pkts.iter().enumerate() {
            clock::advance_ns(p.gap_ns);
            if p.wall_jump_ms != 0 {
                clock::wall_jump_ms(p.wall_jump_ms);
                st.fault(if p.wall_jump_ms > 0 { "clock_jump_forward" } else { "clock_jump_backward" });
                last_jump = Some(i);
            }
            let now_ms = clock::unix_ms_peek();
            let frame = pkt::frame(&p.seg, scn.framing);
            let out = sut.deliver(&frame);
            st.packets += 1;
            st.ev_u64(now_ms);
            let got: Vec<Est> = out.obs.iter().filter(|o| o.kind == "client_uptime" || o.kind == "server_uptime").filter_map(|o| parse_uptime(&o.text)).collect();
            for o in &out.obs {
                if o.kind.ends_with("uptime") {
                    st.ev(&o.text);
                    // attribution: endpoints of the packet that triggered it
                    if o.src != crate::sut::endpoints_of(&p.seg.src) || o.dst != crate::sut::endpoints_of(&p.seg.dst) {
                        return Err(Violation::new("misattributed", scn.kind.name(), format!("packet {}: uptime reported for {}->{} on a segment {}->{}", i, o.src, o.dst, crate::sut::endpoints_of(&p.seg.src), crate::sut::endpoints_of(&p.seg.dst))));
                    }
                }
            }
            let Some(ts) = p.tsval else {
                if !got.is_empty() {
                    return Err(Violation::new("estimate-without-timestamp", scn.kind.name(), format!("packet {} carries no timestamp option but an uptime was reported", i)));
                }
                continue;
            };
            st.evals += 1;
            st.ev_u64(ts as u64);
            let key = (p.seg.src, p.seg.dst);
            let client = role_is_client(p.seg.flags, p.seg.src.port, p.seg.dst.port);
            if !model.contains_key(&key) {
                distinct_keys += 1;
                // capacity: stay within the configured number of tracked endpoints (the statement conditions on the entry living)
                if distinct_keys > scn.cap {
                    model.insert(key, St::Unknown);
                }
            }
            // Narrow relaxation under clock faults: once the wall clock has jumped after an endpoint's
            // entry was stored, wall-clock distances and the entry's (monotonic) lifetime disagree and
            // the model cannot know which reference the analyzer still holds: stop judging that endpoint.
            // The relaxation is kept narrow: while the reference is younger (monotonic time) than the lifetime
            // every entry is assumed to have, the analyzer certainly still holds it, so the statement applies
            // with the wall-clock interval as observed — in particular an interval that the jump made negative
            // is below 25 ms: nothing may be reported.
            if let (Some(j), Some(ri)) = (last_jump, ref_idx.get(&key)) {
                let young = matches!(model.get(&key), Some(St::Ref { mono_ns, .. }) if clock::mono_ns().saturating_sub(*mono_ns) <= ENTRY_LIVES_AT_LEAST_NS);
                if j > *ri && young {
                    st.probe("endpoint_judged_across_clock_jump");
                } else if j > *ri && matches!(model.get(&key), Some(St::Ref { .. })) {
                    st.probe("endpoint_unjudged_after_clock_jump");
                    model.insert(key, St::Unknown);
                }
            }
            let cur = model.get(&key).cloned();
            let expect = match cur {
                None => {
                    model.insert(key, St::Ref { ts, ms: now_ms, client, mono_ns: clock::mono_ns() });
                    ref_idx.insert(key, i);
                    Expect::Nothing
                }
                Some(St::Unknown) => Expect::Unjudged,
                Some(St::Bad { at_ns }) => {
                    st.probe("segment_after_bad_marker");
                    // "not re-evaluated while its entry lives": the statement gives no lifetime; the
                    // only thing assumed is that an entry lives at least ENTRY_LIVES_AT_LEAST_NS. Beyond
                    // that the marker may or may not have expired (this segment then becomes a new
                    // reference): nothing is reported either way, and the endpoint is no longer judged.
                    // (a marker is an entry like a reference: since references are relied on for the whole 10-minute
                    // window, so is the marker - judged silent for 590 s, unjudged around and beyond the 600 s mark)
                    if clock::mono_ns().saturating_sub(at_ns) > MARKER_LIVES_AT_LEAST_NS {
                        model.insert(key, St::Unknown);
                    }
                    Expect::Nothing
                }
                Some(St::Ref { ts: rts, ms: rms, client: rclient, mono_ns: rmono }) => {
                    let dms_true = clock::mono_ns().saturating_sub(rmono);
                    if rclient != client {
                        st.probe("role_heuristic_flips_within_one_direction");
                    }
                    let dms = now_ms.saturating_sub(rms);
                    let dts = ts.wrapping_sub(rts);
                    if dms > 600_000 || dms_true > 600_000_000_000 {
                        st.probe("gap_beyond_10min");
                        model.insert(key, St::Unknown);
                        Expect::Nothing
                    } else if dms < 25 {
                        st.probe("gap_below_25ms");
                        model.insert(key, St::Bad { at_ns: clock::mono_ns() });
                        Expect::Nothing
                    } else if dts >= 0x8000_0000 {
                        st.probe("timestamp_went_backward");
                        model.insert(key, St::Bad { at_ns: clock::mono_ns() });
                        Expect::Nothing
                    } else {
                        let raw = dts as f64 * 1000.0 / dms as f64;
                        if rts > ts {
                            st.probe("timestamp_wrapped_forward");
                        }
                        if dms > 30_000 {
                            st.probe("gap_between_30s_and_10min");
                        }
                        if !(1.0..=1500.0).contains(&raw) {
                            st.probe("rate_out_of_range");
                            model.insert(key, St::Bad { at_ns: clock::mono_ns() });
                            Expect::Nothing
                        } else {
                            let ests: Vec<Est> = grid_set(raw).into_iter().map(|f| estimate(ts, f, client)).collect();
                            if dts < 5 {
                                st.probe("fewer_than_5_ticks");
                                Expect::Either(ests)
                            } else {
                                Expect::OneOf(ests)
                            }
                        }
                    }
                }
            };
            let describe = |e: &Est| format!("freq={} {}d{}h{}m mod{} {}", e.freq, e.days, e.hours, e.min, e.up_mod_days, if e.client { "client" } else { "server" });
            match expect {
                Expect::Unjudged => {}
                Expect::Nothing => {
                    saw_withheld = true;
                    if let Some(g) = got.first() {
                        let why = match model.get(&key) {
                            Some(St::Bad { .. }) => "withheld-case",
                            _ => "first-segment",
                        };
                        let class = if cur.as_ref().map(|c| matches!(c, St::Ref { ts: rts, .. } if ts.wrapping_sub(*rts) >= 0x8000_0000)).unwrap_or(false) { "backward-estimate" } else { "unsound-estimate" };
                        return Err(Violation::new(class, kname(scn.kind.name()), format!("packet {}: estimate [{}] reported where the statement withholds one ({}; state before: {:?}, TSval={}, observed ms={})", i, describe(g), why, cur, ts, now_ms)));
                    }
                }
                Expect::OneOf(es) | Expect::Either(es) if !got.is_empty() => {
                    saw_est = true;
                    if got.len() > 1 {
                        return Err(Violation::new("double-estimate", scn.kind.name(), format!("packet {}: both client and server uptime reported", i)));
                    }
                    let g = &got[0];
                    if !es.contains(g) {
                        let e = &es[0];
                        let class = if g.freq != e.freq {
                            "frequency"
                        } else if g.client != e.client {
                            "role"
                        } else {
                            "uptime-fields"
                        };
                        let (rts, rms) = match cur {
                            Some(St::Ref { ts, ms, .. }) => (ts, ms),
                            _ => (0, 0),
                        };
                        let raw = ts.wrapping_sub(rts) as f64 * 1000.0 / (now_ms - rms) as f64;
                        let key = if class == "frequency" && snap(raw, 100.0).map(|f| f != 100).unwrap_or(false) && g.freq == 100 { "multiple-of-100-collapsed-to-100".to_string() } else { scn.kind.name().to_string() };
                        return Err(Violation::new(class, key, format!("packet {}: measured {:.3} Hz over {} ms; statement gives [{}], reported [{}]", i, raw, now_ms - rms, describe(e), describe(g))));
                    }
                }
                Expect::OneOf(es) => {
                    let (rts, rms, rclient) = match cur {
                        Some(St::Ref { ts, ms, client, .. }) => (ts, ms, client),
                        _ => (0, 0, client),
                    };
                    let dms = now_ms - rms;
                    let raw = ts.wrapping_sub(rts) as f64 * 1000.0 / dms as f64;
                    let _ = rclient;
                    let key = if flips_exist { "role-heuristic-flips-within-one-direction".to_string() } else if dms > 30_000 { "gap-over-30s".to_string() } else { scn.kind.name().to_string() };
                    return Err(Violation::new("missing-estimate", key, format!("packet {}: steady {:.3} Hz over {} ms ({} ticks) from {}->{} but nothing reported; statement gives [{}]", i, raw, dms, ts.wrapping_sub(rts), crate::sut::endpoints_of(&p.seg.src), crate::sut::endpoints_of(&p.seg.dst), describe(&es[0]))));
                }
                Expect::Either(_) => {
                    // nothing reported with < 5 ticks: the analyzer treats it as a failed reading
                    model.insert(key, St::Bad { at_ns: clock::mono_ns() });
                }
            }
        }
        st.sim_ns = clock::mono_ns();
        st.nontrivial = saw_est && saw_withheld;
        let (ru, rm) = clock::reads();
        if ru > 0 {
            st.probe("wall_clock_seam_read");
        }
        if rm > 0 {
            st.probe("ttl_cache_clock_seam_read");
        }
        Ok(())
    }

    fn shrink(scn: &Scn) -> Vec<Scn> {
        let mut out = vec![];
        for i in (0..scn.pkts.len()).rev() {
            let mut s = scn.clone();
            let g = s.pkts[i].gap_ns;
            s.pkts.remove(i);
            if i < s.pkts.len() {
                s.pkts[i].gap_ns += g;
            }
            out.push(s);
        }
        for i in 0..scn.pkts.len() {
            if scn.pkts[i].wall_jump_ms != 0 {
                let mut s = scn.clone();
                s.pkts[i].wall_jump_ms = 0;
                out.push(s);
            }
        }
        if scn.kind != Kind::Tcp {
            let mut s = scn.clone();
            s.kind = Kind::Tcp;
            out.push(s);
        }
        out
    }
}

