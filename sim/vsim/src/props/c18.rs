//! C18 — dispatch keeps connections together and accounts for every packet exactly once.
//!
//! Accounting (poolsim): D concurrent dispatcher threads hand uniquely identifiable frames to a
//! real pool with a small queue (forced overflow) while workers consume; the scheduler decides
//! every interleaving. Oracle over the recorded outcomes, the received results and `stats()`.
//! Affinity (no threads): the worker index is a function of connection identity alone.

#![cfg(huginn_net_verif_sched)]

use crate::gen::{http1, tcp, tls};
use crate::pkt::{self, Endpoint, Framing, Seg};
use crate::pool::{self, ExecPlan, PoolCfg, PoolKind, Sched};
use crate::rng::Rng;
use crate::runner::{Prop, RunStats, Tier, Violation};
use crate::sut::{Sut, SutCfg};
use serde::{Deserialize, Serialize};
use std::collections::BTreeMap;
use std::sync::Arc;

#[derive(Clone, Debug, Serialize, Deserialize)]
pub struct Item {
    #[serde(with = "crate::pkt::hexser")]
    pub frame: Vec<u8>,
    /// what this frame is to the oracle
    pub role: Role,
    /// identity: source endpoint rendered as the analyzers render it ("" = none)
    pub id: String,
}

#[derive(Clone, Copy, Debug, PartialEq, Eq, Serialize, Deserialize)]
pub enum Role {
    /// TCP SYN with a unique source endpoint (TCP pool: yields a `syn` result)
    Syn,
    /// single-segment ClientHello with a unique source endpoint (TLS pool: yields a `tls` result)
    Hello,
    /// SYN of an HTTP connection (HTTP pool), followed later by `HttpRequest` with the same id
    HttpSyn,
    HttpRequest,
    /// too short / unknown IP version / non-TCP / truncated
    Malformed,
}

#[derive(Clone, Debug, Serialize, Deserialize)]
pub enum Mode {
    Accounting {
        cfg: PoolCfg,
        dispatchers: Vec<Vec<Item>>,
        schedules: Vec<u64>,
        iters: usize,
        sched: Sched,
        stats_calls: usize,
        /// fault: the consumer of the results goes away after dispatcher 0 handed over this many frames
        #[serde(default)]
        consumer_gone_after: Option<usize>,
        /// fault: shutdown() from another thread after this many yields, racing the dispatchers
        #[serde(default)]
        shutdown_after_yields: Option<usize>,
    },
    Affinity {
        kind: PoolKind,
        seg: Seg,
        variants: Vec<(String, Seg, Framing)>,
        base_framing: Framing,
        must_differ_ok: bool,
        /// byte patch applied to the IP header of the base frame and of every variant: (offset from the start of the IP header, mask, value)
        #[serde(default)]
        all_patch: Option<(usize, u8, u8)>,
        /// extra variants that are the base frame with one IP-header byte patched: (name, offset, mask, value)
        #[serde(default)]
        byte_variants: Vec<(String, usize, u8, u8)>,
    },
    /// drop storm: the workers are stalled (a descheduled node) while several dispatcher threads hand tens of
    /// thousands of frames for one worker to a pool with a tiny queue; afterwards the counters must equal the outcomes
    Storm {
        cfg: PoolCfg,
        #[serde(with = "crate::pkt::hexser")]
        frame: Vec<u8>,
        dispatchers: usize,
        per_dispatcher: usize,
        schedule: u64,
        /// non-zero: the volume variant - the workers run, every frame is an IPv4 packet of this total length, and a
        /// dispatcher that is told Dropped waits and offers the frame again, so that more than 4 GiB pass through one
        /// worker of one pool
        #[serde(default)]
        volume_frame_len: usize,
    },
}

#[derive(Clone, Debug, Serialize, Deserialize)]
pub struct Scn {
    pub mode: Mode,
}

pub struct C18;

fn epstr(e: &Endpoint) -> String {
    crate::sut::endpoints_of(e)
}

fn malformed(r: &mut Rng) -> Vec<u8> {
    match r.below(5) {
        0 => r.bytes(r.clone().urange(0, 13)),
        1 => {
            // unknown IP version, raw
            let n = r.urange(40, 80);
            let mut f = r.bytes(n);
            f[0] = 0x75;
            f[12] = 1;
            f
        }
        2 => {
            // UDP in IPv4 over Ethernet
            let mut s = Seg::new(Endpoint::v4(10, 7, 0, 1, 5353), Endpoint::v4(10, 7, 0, 2, 53));
            s.payload = r.bytes(20);
            let mut f = pkt::frame(&s, Framing::Ethernet);
            f[14 + 9] = 17;
            f
        }
        3 => {
            // truncated inside the TCP header
            let mut s = Seg::new(Endpoint::v4(10, 7, 0, 3, 40000 + r.below(100) as u16), Endpoint::v4(10, 7, 0, 2, 80));
            s.flags = pkt::SYN;
            let f = pkt::frame(&s, Framing::Ethernet);
            f[..14 + 20 + r.usize_below(4)].to_vec()
        }
        _ => {
            let n = r.urange(14, 60);
            r.bytes(n)
        }
    }
}

fn sentinel_source(r: &mut Rng) -> Option<std::net::IpAddr> {
    let list: Vec<serde_json::Value> = serde_json::from_str(include_str!("../../data/sentinel_sources.json")).unwrap_or_default();
    if list.is_empty() {
        return None;
    }
    list[r.usize_below(list.len())].get("addr").and_then(|a| a.as_str()).and_then(|a| a.parse().ok())
}

pub fn gen_items(r: &mut Rng, kind: PoolKind, d: usize, di: usize, n: usize, v6: bool, framing: Framing) -> Vec<Item> {
    let mut v = vec![];
    let h = tcp::Host::random(r);
    for k in 0..n {
        let hostid = (di * 50 + k) as u16;
        let _ = d;
        let c = if v6 { Endpoint::v6(0x300 + hostid, 40000 + hostid) } else { Endpoint::v4(10, 20 + (hostid / 250) as u8, (hostid % 250) as u8, 1 + (hostid % 200) as u8, 40000 + hostid) };
        // one IPv6 sender in twelve is taken from the corpus of addresses whose TCP-pool hash has an all-one or
        // all-zero half (data/sentinel_sources.json, found by `vsim sentinel-sources`)
        let c = if v6 && r.chance(1, 12) { sentinel_source(r).map(|ip| Endpoint { ip, port: 40000 + hostid }).unwrap_or(c) } else { c };
        let s = if v6 { Endpoint::v6(0x10, 443) } else { Endpoint::v4(10, 9, 0, 1, *r.pick(&[80u16, 443, 8080])) };
        if r.chance(1, 7) {
            v.push(Item { frame: malformed(r), role: Role::Malformed, id: String::new() });
            continue;
        }
        match kind {
            PoolKind::Tcp => v.push(Item { frame: pkt::frame(&tcp::syn(&h, c, s, r.u32(), 0), framing), role: Role::Syn, id: epstr(&c) }),
            PoolKind::Tls => {
                let mut spec = tls::random_spec(r, 900);
                spec.target_len = spec.target_len.min(900);
                let hello = tls::client_hello(r, &spec);
                let seg = tcp::data(&h, c, s, 1001, 5001, hello, 0, 0, pkt::ACK | pkt::PSH);
                v.push(Item { frame: pkt::frame(&seg, framing), role: Role::Hello, id: epstr(&c) });
            }
            PoolKind::Http => {
                v.push(Item { frame: pkt::frame(&tcp::syn(&h, c, s, 1000, 0), framing), role: Role::HttpSyn, id: epstr(&c) });
                let rq = http1::request(r, 0);
                let seg = tcp::data(&h, c, s, 1001, 5001, rq.bytes, 0, 0, pkt::ACK | pkt::PSH);
                v.push(Item { frame: pkt::frame(&seg, framing), role: Role::HttpRequest, id: epstr(&c) });
            }
        }
    }
    v
}

/// does the per-packet function of this crate return Ok for this frame (state-independent for the frames used here)?
fn seq_ok(kind: PoolKind, cfg: &PoolCfg, frame: &[u8]) -> bool {
    let mut sc = SutCfg::new(kind.sut_kind(), 16);
    sc.with_db = cfg.with_db;
    match Sut::new(&sc) {
        Ok(mut s) => s.deliver(frame).err.is_none(),
        Err(_) => false,
    }
}

fn check_accounting(cfg: &PoolCfg, dispatchers: &[Vec<Item>], out: &pool::ExecOut, st: &mut RunStats) -> Result<(), Violation> {
    let kind = cfg.kind;
    let key = kind.name();
    let mut queued = 0u64;
    let mut dropped = 0u64;
    let mut calls = 0u64;
    let mut unhashable = 0u64;
    let mut expect_count = 0usize; // results expected by count (TCP/HTTP: queued && Ok)
    let mut expect_id: BTreeMap<String, usize> = BTreeMap::new(); // identity -> expected number of identifying results
    let mut dropped_ids: Vec<String> = vec![];
    let mut http_syn_queued: BTreeMap<String, bool> = BTreeMap::new();
    let mut per_worker_full = vec![0u64; cfg.workers];
    let mut drops_by_identity: BTreeMap<usize, u64> = BTreeMap::new();
    let mut http_err_processed = 0u64;
    for (d, items) in dispatchers.iter().enumerate() {
        for (i, it) in items.iter().enumerate() {
            let q = out.outcomes[d][i];
            calls += 1;
            let w = pool::worker_of(kind, &it.frame, cfg.workers);
            if let Some(w) = w {
                if w >= cfg.workers {
                    return Err(Violation::new("worker-index-out-of-range", key, format!("hash gives worker {} for {} workers", w, cfg.workers)));
                }
            }
            if w.is_none() {
                unhashable += 1;
                if q {
                    return Err(Violation::new("unhashable-frame-queued", key, "a frame the TLS hash discards was reported Queued".to_string()));
                }
            }
            if q {
                queued += 1;
                let ok = seq_ok(kind, cfg, &it.frame);
                if !ok && kind == PoolKind::Http {
                    http_err_processed += 1;
                }
                match (kind, it.role) {
                    (PoolKind::Tcp, _) | (PoolKind::Http, _) if ok => expect_count += 1,
                    _ => {}
                }
                match it.role {
                    Role::Syn | Role::Hello => {
                        *expect_id.entry(it.id.clone()).or_insert(0) += 1;
                    }
                    Role::HttpSyn => {
                        http_syn_queued.insert(it.id.clone(), true);
                    }
                    Role::HttpRequest => {
                        if *http_syn_queued.get(&it.id).unwrap_or(&false) {
                            *expect_id.entry(it.id.clone()).or_insert(0) += 1;
                        }
                    }
                    Role::Malformed => {}
                }
            } else {
                dropped += 1;
                if let Some(w) = w {
                    per_worker_full[w] += 1;
                    // the frame's identity, by the low half of the pool's own hash of it
                    if let Some(ident) = pool::worker_of(kind, &it.frame, 1usize << 32) {
                        *drops_by_identity.entry(ident).or_insert(0) += 1;
                    }
                }
                if matches!(it.role, Role::Syn | Role::Hello | Role::HttpRequest) {
                    dropped_ids.push(it.id.clone());
                }
            }
        }
    }
    st.probe_n("dispatch_queued", queued);
    st.probe_n("dispatch_dropped_queue_full", dropped.saturating_sub(unhashable));
    st.probe_n("dispatch_discarded_unhashable", unhashable);
    // ---- results: every queued packet analysed exactly once, dropped ones never
    let ident_kind = match kind {
        PoolKind::Tcp => "syn",
        PoolKind::Tls => "tls",
        PoolKind::Http => "http_request",
    };
    // fault relaxation, narrow: once the consumer of results is gone nothing can be observed of the analysis,
    // and workers stop at their next result; what remains decidable is that the counters match the outcomes
    // The same goes for a shutdown() that races the dispatchers (the statement is about dispatching before
    // shutdown): what a queued packet's fate is then is not promised, and a dispatch refused because of the flag
    // is not counted; what must still hold is the safety half - a packet reported dropped is never analysed, and
    // nothing is analysed more often than it was queued.
    let observe_results = !out.consumer_gone && !out.shutdown_raced;
    let observe_stats = !out.shutdown_raced;
    let mut got_id: BTreeMap<String, usize> = BTreeMap::new();
    for r in &out.results {
        for o in r {
            if o.kind == ident_kind {
                *got_id.entry(o.src.clone()).or_insert(0) += 1;
            }
        }
    }
    for (id, n) in &expect_id {
        let g = *got_id.get(id).unwrap_or(&0);
        if g < *n && observe_results {
            return Err(Violation::new("queued-but-not-analysed", key, format!("{} dispatch(es) of the frame from {} returned Queued but {} {} result(s) arrived", n, id, g, ident_kind)));
        }
        if g > *n {
            return Err(Violation::new("analysed-more-than-once", key, format!("frame from {} queued {} time(s) but {} {} results arrived", id, n, g, ident_kind)));
        }
    }
    for id in &dropped_ids {
        if !expect_id.contains_key(id) && got_id.contains_key(id) {
            return Err(Violation::new("dropped-but-analysed", key, format!("dispatch of the frame from {} returned Dropped, yet a {} result for it arrived", id, ident_kind)));
        }
    }
    for id in got_id.keys() {
        if !expect_id.contains_key(id) {
            return Err(Violation::new("dropped-but-analysed", key, format!("a {} result for {} arrived although no dispatch of it was Queued", ident_kind, id)));
        }
    }
    if kind != PoolKind::Tls && out.results.len() != expect_count && observe_results {
        return Err(Violation::new(if out.results.len() < expect_count { "queued-but-not-analysed" } else { "analysed-more-than-once" }, key, format!("{} frames were queued and analysable but {} results (empty ones included) were received", expect_count, out.results.len())));
    }
    if !observe_stats {
        return Ok(());
    }
    // ---- statistics agree with the outcomes
    let s = &out.stats_after;
    if s.dropped != dropped {
        return Err(Violation::new("stats-dropped", key, format!("stats().total_dropped = {} but {} dispatch calls returned Dropped", s.dropped, dropped)));
    }
    let want_dispatched = match kind {
        PoolKind::Tcp => queued,
        PoolKind::Http => calls,
        PoolKind::Tls => calls - unhashable,
    };
    if s.dispatched != want_dispatched {
        return Err(Violation::new("stats-dispatched", key, format!("stats().total_dispatched = {} but the outcomes imply {} ({} calls, {} queued, {} discarded as unhashable)", s.dispatched, want_dispatched, calls, queued, unhashable)));
    }
    if s.workers.len() != cfg.workers {
        return Err(Violation::new("stats-workers", key, format!("stats() lists {} workers, pool has {}", s.workers.len(), cfg.workers)));
    }
    let sum_wd: u64 = s.workers.iter().map(|w| w.1).sum();
    let full_drops = dropped - unhashable;
    match kind {
        PoolKind::Tcp | PoolKind::Tls => {
            // The statement fixes what the worker may depend on (the identity), not the function. The expectation above
            // uses the mapping the pools have today (hash % workers); when the counters disagree with it they may still
            // be right for another mapping: they are, if the Dropped outcomes grouped by identity can be dealt out to
            // the workers so that every counter is met exactly.
            let strict_ok = s.workers.iter().enumerate().all(|(w, (_, wd))| *wd == per_worker_full[w]);
            if !strict_ok {
                let mut groups: Vec<u64> = drops_by_identity.values().cloned().filter(|d| *d > 0).collect();
                groups.sort_by(|a, b| b.cmp(a));
                let mut room: Vec<u64> = s.workers.iter().map(|w| w.1).collect();
                fn deal(groups: &[u64], room: &mut Vec<u64>, budget: &mut u32) -> Option<bool> {
                    let Some((g, rest)) = groups.split_first() else { return Some(room.iter().all(|r| *r == 0)) };
                    for w in 0..room.len() {
                        if room[w] >= *g && (w == 0 || room[w] != room[w - 1]) {
                            if *budget == 0 {
                                return None;
                            }
                            *budget -= 1;
                            room[w] -= g;
                            let r = deal(rest, room, budget);
                            room[w] += g;
                            if r != Some(false) {
                                return r;
                            }
                        }
                    }
                    Some(false)
                }
                let mut budget = 200_000u32;
                match deal(&groups, &mut room, &mut budget) {
                    Some(true) => st.probe("per_worker_counters_fit_another_identity_mapping"),
                    None => st.probe("per_worker_counters_not_decided"),
                    Some(false) => {
                        let (w, wd) = s.workers.iter().enumerate().find(|(w, (_, wd))| *wd != per_worker_full[*w]).map(|(w, x)| (w, x.1)).unwrap_or((0, 0));
                        return Err(Violation::new("stats-worker-dropped", key, format!("worker {} dropped counter = {} but {} dispatches to it returned Dropped (and no assignment of identities to workers explains the per-worker counters {:?})", w, wd, per_worker_full[w], s.workers.iter().map(|x| x.1).collect::<Vec<_>>())));
                    }
                }
            }
        }
        PoolKind::Http => {
            // the HTTP worker also counts processing errors in the same per-worker counter
            if sum_wd < full_drops || sum_wd > full_drops + http_err_processed {
                return Err(Violation::new("stats-worker-dropped", key, format!("sum of per-worker dropped = {} but queue-full drops = {} (+ at most {} processing errors)", sum_wd, full_drops, http_err_processed)));
            }
        }
    }
    // queue_size == 0 once everything was consumed: decidable only when every queued frame yields a result
    if kind != PoolKind::Tls && observe_results && out.received_before_stats >= expect_count && queued as usize == expect_count {
        for (w, (qs, _)) in s.workers.iter().enumerate() {
            if *qs != 0 {
                return Err(Violation::new("stats-queue-size", key, format!("every expected result was received but stats() says worker {} still has {} queued", w, qs)));
            }
        }
    }
    // ---- stats() during dispatch: monotone counters
    for w in out.stats_during.windows(2) {
        if w[1].dispatched < w[0].dispatched || w[1].dropped < w[0].dropped || w[0].workers.iter().zip(w[1].workers.iter()).any(|(a, b)| b.1 < a.1) {
            return Err(Violation::new("stats-not-monotone", key, format!("successive stats() calls went backwards: {:?} then {:?}", w[0], w[1])));
        }
    }
    if let Some(l) = out.stats_during.last() {
        if l.dispatched > s.dispatched || l.dropped > s.dropped {
            return Err(Violation::new("stats-not-monotone", key, "stats() taken during dispatch exceeds the final stats()".to_string()));
        }
    }
    Ok(())
}

fn expected_wait(cfg: &PoolCfg, dispatchers: &[Vec<Item>]) -> Arc<dyn Fn(&[Vec<bool>]) -> usize + Send + Sync> {
    // number of results that must arrive given the dispatch outcomes (computed outside the schedule)
    let kind = cfg.kind;
    let ok: Vec<Vec<bool>> = dispatchers.iter().map(|d| d.iter().map(|it| seq_ok(kind, cfg, &it.frame)).collect()).collect();
    let roles: Vec<Vec<(Role, String)>> = dispatchers.iter().map(|d| d.iter().map(|it| (it.role, it.id.clone())).collect()).collect();
    Arc::new(move |outs: &[Vec<bool>]| -> usize {
        let mut n = 0;
        for (d, o) in outs.iter().enumerate() {
            for (i, q) in o.iter().enumerate() {
                if !*q {
                    continue;
                }
                match kind {
                    PoolKind::Tls => {
                        if roles[d][i].0 == Role::Hello {
                            n += 1
                        }
                    }
                    _ => {
                        if ok[d][i] {
                            n += 1
                        }
                    }
                }
            }
        }
        n
    })
}

fn rewrite_variants(r: &mut Rng, seg: &Seg, base_framing: Framing) -> Vec<(String, Seg, Framing)> {
    let mut v = vec![];
    let mut m = |name: &str, f: &dyn Fn(&mut Seg)| {
        let mut s = seg.clone();
        f(&mut s);
        v.push((name.to_string(), s, base_framing));
    };
    let pl = r.bytes(r.clone().urange(1, 200));
    m("payload", &|s| s.payload = pl.clone());
    m("flags", &|s| s.flags ^= pkt::PSH | pkt::ACK | pkt::FIN);
    let (a, b) = (r.u32(), r.u32());
    m("seq_ack", &|s| {
        s.seq = a;
        s.ack = b
    });
    let w = r.u16();
    m("window", &|s| s.window = w);
    let t = r.u8();
    m("ttl", &|s| s.ttl = t);
    let id = r.u16();
    m("ip_id", &|s| s.ip_id = id);
    let tos = r.u8();
    m("tos", &|s| s.tos = tos);
    m("df", &|s| s.df = !s.df);
    let opts = {
        let mut o = pkt::opt::mss(r.u16());
        o.extend(pkt::opt::nop());
        o.extend(pkt::opt::ws(r.below(15) as u8));
        o.extend(pkt::opt::sackok());
        o.extend(pkt::opt::ts(r.u32(), r.u32()));
        o
    };
    m("tcp_options", &|s| s.tcp_opts = opts.clone());
    m("no_tcp_options", &|s| s.tcp_opts = vec![]);
    let fl = r.u32() & 0xfffff;
    m("flow_label", &|s| s.flow_label = fl);
    let up = r.u16();
    m("urg_ptr", &|s| s.urg_ptr = up);
    // the NICs' Ethernet addresses are not part of a connection's identity either
    for _ in 0..3 {
        let mut e = pkt::mac(r).to_vec();
        e.extend_from_slice(&pkt::mac(r));
        m("ethernet_addresses", &|s| s.eth = e.clone());
    }
    // ... including addresses that make the whole Ethernet frame read like a raw IP packet of exactly its length:
    // first byte 0x45..0x4f and bytes 2..3 the frame length (IPv4 version/IHL and total length), or first byte 0x6?
    // and bytes 4..5 the frame length minus 40 (IPv6 version and payload length)
    {
        let len = pkt::frame(seg, Framing::Ethernet).len();
        let mut e4 = pkt::mac(r).to_vec();
        e4.extend_from_slice(&pkt::mac(r));
        e4[0] = 0x45 + r.below(11) as u8;
        e4[2] = (len >> 8) as u8;
        e4[3] = len as u8;
        m("ethernet_addresses", &|s| s.eth = e4.clone());
        let mut e6 = pkt::mac(r).to_vec();
        e6.extend_from_slice(&pkt::mac(r));
        e6[0] = 0x60 | (r.u8() & 0x0f);
        let pl = len.saturating_sub(40);
        e6[4] = (pl >> 8) as u8;
        e6[5] = pl as u8;
        m("ethernet_addresses", &|s| s.eth = e6.clone());
    }
    if seg.src.is_v4() {
        let n = 4 * r.urange(1, 5);
        m("ip_options", &|s| s.ip_opts = vec![1u8; n]);
    }
    // framing: Ethernet vs raw IP
    let other = if base_framing == Framing::Ethernet { Framing::RawIp } else { Framing::Ethernet };
    v.push(("framing".to_string(), seg.clone(), other));
    v
}

impl Prop for C18 {
    type Scn = Scn;
    const ID: &'static str = "C18";
    const ENGINE: &'static str = "poolsim";

    fn rule() -> &'static str {
        "accounting: one evaluation = one (scenario, schedule) execution of a real WorkerPool under shuttle with 1..4 concurrent dispatcher threads, uniquely identifiable frames, queue sizes incl. 0/1/2 and a concurrent stats() reader; affinity: one evaluation = one (frame, header rewrite, worker count 1..64) comparison of the pool's hash. non-trivial = the execution saw at least one Queued and one Dropped outcome (accounting) or compared a rewritten frame (affinity); distinct = distinct model-channel event-sequence hash (accounting) / event-log hash (affinity)"
    }

    fn runs(tier: Tier) -> u64 {
        tier.pick(2_500, 80_000)
    }

    fn run_wall_limit_s() -> u64 {
        60
    }

    fn panics_are_violations() -> bool {
        true
    }

    fn generate(r: &mut Rng, tier: Tier, _idx: u64) -> Scn {
        let kind = *r.pick(&PoolKind::ALL);
        if r.chance(1, 110) {
            // drop storm: totals that cross 2^16 and 2^17 drops on one worker while two or three dispatchers are active
            let dispatchers = r.urange(2, 3);
            let total = *r.pick(&[70_000usize, 90_000, 140_000]);
            let cfg = PoolCfg { kind, workers: r.urange(1, 3), queue: *r.pick(&[1usize, 2, 16]), batch: *r.pick(&[1usize, 16]), timeout_ms: 10, cap: 64, with_db: false, filter: None };
            let h = tcp::Host::random(r);
            let seg = tcp::data(&h, Endpoint::v4(10, 78, r.u8(), 1, 40000), Endpoint::v4(10, 78, 0, 2, 443), 1001, 5001, vec![], 0, 0, pkt::ACK);
            if r.chance(1, 2) {
                // volume: 2 x 34000 (or 3 x 23000) frames of 65535 bytes = 4.4 GiB through one worker
                let cfg = PoolCfg { queue: *r.pick(&[8usize, 64, 256]), ..cfg };
                return Scn { mode: Mode::Storm { cfg, frame: pkt::frame(&seg, Framing::Ethernet), dispatchers, per_dispatcher: 68_500 / dispatchers, schedule: r.next_u64(), volume_frame_len: 65535 } };
            }
            return Scn { mode: Mode::Storm { cfg, frame: pkt::frame(&seg, Framing::Ethernet), dispatchers, per_dispatcher: total / dispatchers + r.usize_below(50), schedule: r.next_u64(), volume_frame_len: 0 } };
        }
        if r.chance(1, 4) {
            // affinity scenario
            let v6 = r.chance(1, 3);
            // address pools include values that look like ethertypes when they sit at bytes 12..13 of a raw packet
            // one scenario in six: addresses whose leading bytes sit, in a raw-IP packet, where an Ethernet frame has its
            // EtherType (offset 12: source address) and where a VLAN-tagged frame has its inner EtherType (offset 16:
            // destination address), and look like one: 08 00, 86 dd, or a tag protocol id
            let framing_lookalike = !v6 && r.chance(1, 6);
            let c = if v6 && r.chance(1, 3) {
                // special-purpose prefixes that code likes to treat specially: NAT64, 6to4, Teredo, IPv4-mapped and
                // -compatible, link-local, unique-local, documentation, loopback
                let v4: u32 = r.u32();
                let lo = r.next_u64();
                let a: u128 = match r.below(10) {
                    0 | 1 => (0x0064_ff9bu128 << 96) | v4 as u128,
                    2 => (0x2002u128 << 112) | ((v4 as u128) << 80) | lo as u128,
                    3 => (0x2001_0000u128 << 96) | ((v4 as u128) << 64) | lo as u128,
                    4 => (0xffffu128 << 32) | v4 as u128,
                    5 => v4 as u128,
                    6 => (0xfe80u128 << 112) | lo as u128,
                    7 => (0xfd00u128 << 112) | ((lo as u128) << 8) | 1,
                    8 => (0x0064_ff9b_0001u128 << 80) | v4 as u128,
                    _ => 1,
                };
                Endpoint { ip: std::net::IpAddr::V6(std::net::Ipv6Addr::from(a)), port: 1024 + r.below(60000) as u16 }
            } else if v6 {
                Endpoint::v6(1 + r.below(200) as u16, 1024 + r.below(60000) as u16)
            } else if framing_lookalike {
                let (a, b) = *r.pick(&[(0x08u8, 0x00u8), (0x86, 0xdd), (0x81, 0x00), (0x81, 0x00), (0x88, 0xa8), (0x91, 0x00)]);
                Endpoint::v4(a, b, r.u8(), 1 + r.below(250) as u8, 1024 + r.below(60000) as u16)
            } else {
                Endpoint::v4(*r.pick(&[10u8, 192, 172, 100]), r.u8(), r.u8(), 1 + r.below(250) as u8, 1024 + r.below(60000) as u16)
            };
            let s = if v6 {
                Endpoint::v6(0x500 + r.below(20) as u16, *r.pick(&[80u16, 443, 8080]))
            } else if framing_lookalike && r.chance(2, 3) {
                let (a, b) = *r.pick(&[(0x08u8, 0x00u8), (0x86, 0xdd)]);
                Endpoint::v4(a, b, r.u8(), 1 + r.below(250) as u8, *r.pick(&[80u16, 443, 8080]))
            } else {
                Endpoint::v4(*r.pick(&[10u8, 203, 198]), r.u8(), r.u8(), 1 + r.below(250) as u8, *r.pick(&[80u16, 443, 8080]))
            };
            // one scenario in twelve is a connection whose dispatch hash takes a sentinel-looking value (low 32 bits all
            // zero or all one): found once by `vsim sentinels` against the repository's own hash functions and kept in
            // data/sentinel_flows.json. A random sample meets such a connection once in 2^32.
            let (c, s) = if !v6 && r.chance(1, 12) {
                let list: Vec<serde_json::Value> = serde_json::from_str(include_str!("../../data/sentinel_flows.json")).unwrap_or_default();
                let parse = |t: &str| -> Option<Endpoint> {
                    let (ip, port) = t.rsplit_once(':')?;
                    Some(Endpoint { ip: ip.parse().ok()?, port: port.parse().ok()? })
                };
                match list.get(r.usize_below(list.len().max(1))).and_then(|e| Some((parse(e.get("client")?.as_str()?)?, parse(e.get("server")?.as_str()?)?))) {
                    Some(cs) => cs,
                    None => (c, s),
                }
            } else {
                (c, s)
            };
            // one connection in five has both ends on the same address (loopback capture, hairpin NAT)
            let s = if r.chance(1, 5) { Endpoint { ip: c.ip, port: s.port } } else { s };
            let h = tcp::Host::random(r);
            let mut seg = tcp::data(&h, c, s, r.u32(), r.u32(), r.bytes(40), 0, 0, pkt::ACK);
            if r.chance(1, 3) {
                seg = tcp::syn(&h, c, s, r.u32(), 0);
            }
            let base_framing = *r.pick(&[Framing::Ethernet, Framing::RawIp]);
            let variants = rewrite_variants(r, &seg, base_framing);
            // invalid-but-analysed headers: IPv4 header length below 5 words on every frame of the comparison
            let all_patch = if !v6 && r.chance(1, 4) { Some((0usize, 0x0fu8, r.below(5) as u8)) } else { None };
            // the IP version nibble is ignored by the analyzers under Ethernet framing (the ethertype decides)
            let mut byte_variants = vec![];
            if base_framing == Framing::Ethernet && all_patch.is_none() {
                byte_variants.push(("ip_version_nibble".to_string(), 0usize, 0xf0u8, (*r.pick(&[0u8, 1, 5, 7, 15, if v6 { 4 } else { 6 }])) << 4));
            }
            return Scn { mode: Mode::Affinity { kind, seg, variants, base_framing, must_differ_ok: true, all_patch, byte_variants } };
        }
        let d = r.urange(1, 4);
        let workers = match r.below(6) {
            0 => 1,
            1 => 2,
            2 => 3,
            3 => r.urange(4, 8),
            _ => r.urange(1, 5),
        };
        let queue = *r.pick(&[0usize, 1, 1, 2, 2, 8, 64]);
        let v6 = r.chance(1, 4);
        let framing = *r.pick(&[Framing::Ethernet, Framing::Ethernet, Framing::RawIp]);
        let per = r.urange(2, 7);
        let cfg = PoolCfg { kind, workers, queue, batch: *r.pick(&[1usize, 2, 4, 16]), timeout_ms: *r.pick(&[1u64, 10, 50]), cap: 64, with_db: r.chance(1, 2), filter: None };
        let dispatchers: Vec<Vec<Item>> = (0..d).map(|di| gen_items(r, kind, d, di, per, v6, framing)).collect();
        let n_sched = tier.pick(3, 10);
        let iters = tier.pick(8, 20);
        let schedules = (0..n_sched).map(|_| r.next_u64()).collect();
        let sched = if tier == Tier::Thorough && r.chance(1, 4) { Sched::Pct(r.urange(2, 3)) } else { Sched::Random };
        let stats_calls = r.urange(0, 4);
        // fault, one scenario in six: the consumer of results goes away in the middle of dispatching
        let consumer_gone_after = if r.chance(1, 6) { Some(r.usize_below(per + 1)) } else { None };
        // fault, one scenario in eight (never together with the other): shutdown() races the dispatchers
        let shutdown_after_yields = if consumer_gone_after.is_none() && r.chance(1, 8) { Some(r.usize_below(3 * per + 2)) } else { None };
        Scn { mode: Mode::Accounting { cfg, dispatchers, schedules, iters, sched, stats_calls, consumer_gone_after, shutdown_after_yields } }
    }

    fn run(s: &Scn, st: &mut RunStats) -> Result<(), Violation> {
        match &s.mode {
            Mode::Accounting { cfg, dispatchers, schedules, iters, sched, stats_calls, consumer_gone_after, shutdown_after_yields } => {
                let plan = Arc::new(ExecPlan { via_analyzer: false, cfg: cfg.clone(), dispatchers: dispatchers.iter().map(|d| d.iter().map(|i| i.frame.clone()).collect()).collect(), stats_calls: *stats_calls, wait_for: Some(expected_wait(cfg, dispatchers)), consumer_gone_after: *consumer_gone_after, shutdown_after_yields: *shutdown_after_yields, idle_gap: None, reinit_pool: false, cancel_after: None });
                st.evals = 0;
                let mut seen_q = false;
                let mut seen_d = false;
                for seed in schedules {
                  for out in pool::run_plan(plan.clone(), *seed, *sched, *iters).map_err(|e| Violation::new("harness-error", "", e))? {
                    st.evals += 1;
                    st.packets += dispatchers.iter().map(|d| d.len() as u64).sum::<u64>();
                    st.ev_u64(out.chan.hash);
                    st.fault_n("queue_full", out.chan.sends_full);
                    st.fault_n("timeout_on_empty_queue", out.chan.timeouts_empty);
                    st.probe_n("try_recv_empty", out.chan.try_recv_empty);
                    st.probe_n("worker_saw_disconnect", out.chan.disconnects_seen);
                    st.schedules_seen.push(out.chan.hash);
                    seen_q |= out.outcomes.iter().flatten().any(|q| *q);
                    seen_d |= out.outcomes.iter().flatten().any(|q| !*q);
                    if out.consumer_gone {
                        st.fault("result_consumer_gone");
                    }
                    if out.shutdown_raced {
                        st.fault("shutdown_races_dispatch");
                    }
                    check_accounting(cfg, dispatchers, &out, st)?;
                  }
                }
                st.nontrivial = seen_q && seen_d;
                Ok(())
            }
            Mode::Storm { cfg, frame, dispatchers, per_dispatcher, schedule, volume_frame_len } => {
                let volume = *volume_frame_len;
                let frame = &if volume > 0 {
                    // the same endpoints, an IPv4 packet of exactly `volume` bytes behind the Ethernet header
                    let mut f = frame.clone();
                    f.resize(14 + volume, 0);
                    f[16] = (volume >> 8) as u8;
                    f[17] = volume as u8;
                    f
                } else {
                    frame.clone()
                };
                // (queued, dropped, stats at quiescence, error)
                type Out = (u64, u64, Option<pool::StatsSnap>, Option<String>);
                let slot: Arc<std::sync::Mutex<Out>> = Arc::new(std::sync::Mutex::new((0, 0, None, None)));
                let (slot2, cfg2, frame2, nd, per) = (slot.clone(), cfg.clone(), frame.clone(), *dispatchers, *per_dispatcher);
                pool::run_scheduled_steps(*schedule, Sched::Random, 1, 200_000_000, move || {
                    verif_chan::evlog_reset();
                    verif_chan::reset_ids();
                    verif_chan::stall(volume == 0);
                    let mut o: Out = (0, 0, None, None);
                    match pool::make_pool(&cfg2) {
                        Err(e) => o.3 = Some(e),
                        Ok((p, recv)) => {
                            let consumer = shuttle::thread::spawn(move || while recv().is_some() {});
                            let hs: Vec<_> = (0..nd)
                                .map(|_| {
                                    let (p, f) = (p.clone(), frame2.clone());
                                    shuttle::thread::spawn(move || {
                                        let (mut q, mut d) = (0u64, 0u64);
                                        for _ in 0..per {
                                            if p.dispatch(f.clone()) {
                                                q += 1;
                                            } else {
                                                d += 1;
                                                // volume variant: wait for the worker and offer the frame again
                                                let mut tries = 0;
                                                while volume > 0 && tries < 10_000 {
                                                    shuttle::thread::yield_now();
                                                    tries += 1;
                                                    if p.dispatch(f.clone()) {
                                                        q += 1;
                                                        break;
                                                    }
                                                    d += 1;
                                                }
                                            }
                                        }
                                        (q, d)
                                    })
                                })
                                .collect();
                            for h in hs {
                                match h.join() {
                                    Ok((q, d)) => {
                                        o.0 += q;
                                        o.1 += d;
                                    }
                                    Err(_) => o.3 = Some("dispatcher thread panicked".to_string()),
                                }
                            }
                            // every dispatch call has returned: the counters are at rest
                            o.2 = Some(p.stats());
                            verif_chan::stall(false);
                            drop(p);
                            let _ = consumer.join();
                        }
                    }
                    *slot2.lock().unwrap() = o;
                });
                let (queued, dropped, stats, err) = slot.lock().unwrap().clone();
                if let Some(e) = err {
                    return Err(Violation::new("harness-error", "", e));
                }
                let stats = stats.ok_or_else(|| Violation::new("harness-error", "", "storm execution did not finish".to_string()))?;
                st.evals = 1;
                st.packets += (dispatchers * per_dispatcher) as u64;
                if volume == 0 {
                    st.fault("workers_stalled");
                }
                st.fault_n("queue_full", dropped);
                st.probe_n("drop_storm_drops", dropped);
                st.ev_u64(queued);
                st.ev_u64(dropped);
                let key = format!("{}:storm", cfg.kind.name());
                if volume == 0 && queued + dropped != (dispatchers * per_dispatcher) as u64 {
                    return Err(Violation::new("harness-error", "", format!("{} outcomes for {} dispatch calls", queued + dropped, dispatchers * per_dispatcher)));
                }
                if volume > 0 {
                    st.fault_n("gigabytes_through_one_worker", queued * volume as u64 >> 30);
                }
                if stats.dropped != dropped {
                    return Err(Violation::new("stats-dropped", key, format!("{} dispatchers x {} frames for one stalled worker: stats().total_dropped = {} but {} dispatch calls returned Dropped", dispatchers, per_dispatcher, stats.dropped, dropped)));
                }
                // what total_dispatched counts differs per pool (queued frames for TCP, dispatch calls for HTTP and TLS)
                let want_dispatched = if cfg.kind == PoolKind::Tcp { queued } else { queued + dropped };
                if stats.dispatched != want_dispatched {
                    return Err(Violation::new("stats-dispatched", key, format!("stats().total_dispatched = {} but the outcomes imply {} ({} queued, {} dropped)", stats.dispatched, want_dispatched, queued, dropped)));
                }
                let sum_wd: u64 = stats.workers.iter().map(|w| w.1).sum();
                if sum_wd != dropped {
                    return Err(Violation::new("stats-worker-dropped", key, format!("sum of per-worker dropped = {} but {} dispatch calls returned Dropped", sum_wd, dropped)));
                }
                st.nontrivial = queued > 0 && dropped > 0;
                Ok(())
            }
            Mode::Affinity { kind, seg, variants, base_framing, all_patch, byte_variants, .. } => {
                // predicate for known-finding matching: a raw-IP framed IPv4 packet whose source address starts
                // with 08 00 or 86 dd sits where an Ethernet frame has its EtherType, and every framing
                // heuristic of the repository (parser, raw filter, dispatch hash) takes it for an Ethernet frame
                // (the direction comparison hashes the reverse packet too, whose source is this segment's destination)
                let looks = |ip: &std::net::IpAddr| match ip {
                    std::net::IpAddr::V4(a) => {
                        let o = a.octets();
                        (o[0] == 0x08 && o[1] == 0x00) || (o[0] == 0x86 && o[1] == 0xdd)
                    }
                    _ => false,
                };
                let raw = *base_framing == Framing::RawIp || variants.iter().any(|v| v.2 == Framing::RawIp);
                let (src_like, dst_like) = (looks(&seg.src.ip) && raw, looks(&seg.dst.ip) && raw);
                let r = affinity_inner(kind, seg, variants, base_framing, all_patch, byte_variants, st);
                return r.map_err(|mut v| {
                    // the packet that is hashed wrongly is the one whose SOURCE looks like an EtherType: the segment
                    // itself under a rewrite, either packet in the comparison of the two directions
                    let lookalike = src_like || (dst_like && v.key.contains("direction"));
                    if lookalike {
                        v.key = format!("raw-ip-source-address-looks-like-ethertype:{}", v.key);
                    }
                    v
                });
            }
        }
    }

    fn shrink(s: &Scn) -> Vec<Scn> {
        shrink_impl(s)
    }
}

#[allow(clippy::too_many_arguments)]
fn affinity_inner(kind: &PoolKind, seg: &Seg, variants: &[(String, Seg, Framing)], base_framing: &Framing, all_patch: &Option<(usize, u8, u8)>, byte_variants: &[(String, usize, u8, u8)], st: &mut RunStats) -> Result<(), Violation> {
    {
        {
            {
                let patch = |mut f: Vec<u8>, p: &Option<(usize, u8, u8)>, fr: Framing| -> Vec<u8> {
                    if let Some((off, mask, val)) = p {
                        let i = pkt::ip_offset_of(fr) + off;
                        if i < f.len() {
                            f[i] = (f[i] & !mask) | (val & mask);
                        }
                    }
                    f
                };
                let base = patch(pkt::frame(seg, *base_framing), all_patch, *base_framing);
                if all_patch.is_some() {
                    st.fault("ipv4_header_length_below_5");
                }
                st.evals = 0;
                // swapped direction
                let mut sw = seg.clone();
                std::mem::swap(&mut sw.src, &mut sw.dst);
                let swf = patch(pkt::frame(&sw, *base_framing), all_patch, *base_framing);
                for w in 1..=64usize {
                    let b = pool::worker_of(*kind, &base, w);
                    st.evals += 1;
                    if let Some(i) = b {
                        if i >= w {
                            return Err(Violation::new("worker-index-out-of-range", kind.name(), format!("worker {} of {}", i, w)));
                        }
                    }
                    st.ev_u64(b.map(|x| x as u64).unwrap_or(u64::MAX));
                    for (name, v, fr) in variants {
                        // with the header length forced below 5, added option bytes would be read as the TCP header: a different packet, not a rewrite
                        if all_patch.is_some() && name == "ip_options" {
                            continue;
                        }
                        // a different framing moves the IP header; the patch follows it
                        let f = patch(pkt::frame(v, *fr), all_patch, *fr);
                        let x = pool::worker_of(*kind, &f, w);
                        st.evals += 1;
                        if x != b {
                            return Err(Violation::new("affinity", format!("{}:{}", kind.name(), name), format!("worker for {}->{} changes from {:?} to {:?} (of {}) when only '{}' is rewritten", epstr(&seg.src), epstr(&seg.dst), b, x, w, name)));
                        }
                    }
                    for (name, off, mask, val) in byte_variants {
                        let f = patch(base.clone(), &Some((*off, *mask, *val)), *base_framing);
                        let x = pool::worker_of(*kind, &f, w);
                        st.evals += 1;
                        if x != b {
                            return Err(Violation::new("affinity", format!("{}:{}", kind.name(), name), format!("worker for {}->{} changes from {:?} to {:?} (of {}) when only '{}' is rewritten (the analyzers ignore it)", epstr(&seg.src), epstr(&seg.dst), b, x, w, name)));
                        }
                    }
                    if *kind == PoolKind::Http {
                        let x = pool::worker_of(*kind, &swf, w);
                        if x != b {
                            return Err(Violation::new("affinity", "http-pool:direction", format!("the two directions of {}<->{} go to workers {:?} and {:?} (of {})", epstr(&seg.src), epstr(&seg.dst), b, x, w)));
                        }
                    }
                    if *kind == PoolKind::Tcp {
                        // same source address, different ports/destination: same worker
                        let mut o = seg.clone();
                        o.src.port = o.src.port.wrapping_add(1);
                        o.dst.port = o.dst.port.wrapping_add(7);
                        let x = pool::worker_of(*kind, &patch(pkt::frame(&o, *base_framing), all_patch, *base_framing), w);
                        if x != b {
                            return Err(Violation::new("affinity", "tcp-pool:same-source-address", format!("same source address, other ports: workers {:?} and {:?} (of {})", b, x, w)));
                        }
                    }
                }
                st.fault_n("header_rewrite", variants.len() as u64);
                st.nontrivial = true;
            }
        }
    }
    Ok(())
}

fn shrink_impl(s: &Scn) -> Vec<Scn> {
    {
        let mut out = vec![];
        match &s.mode {
            Mode::Accounting { cfg, dispatchers, schedules, iters, sched, stats_calls, consumer_gone_after, shutdown_after_yields } => {
                let iters = *iters;
                if schedules.len() > 1 {
                    for sd in schedules {
                        out.push(Scn { mode: Mode::Accounting { cfg: cfg.clone(), dispatchers: dispatchers.clone(), schedules: vec![*sd], iters, sched: *sched, stats_calls: *stats_calls, consumer_gone_after: *consumer_gone_after, shutdown_after_yields: *shutdown_after_yields } });
                    }
                }
                if dispatchers.len() > 1 {
                    for i in 0..dispatchers.len() {
                        let mut d = dispatchers.clone();
                        d.remove(i);
                        out.push(Scn { mode: Mode::Accounting { cfg: cfg.clone(), dispatchers: d, schedules: schedules.clone(), iters, sched: *sched, stats_calls: *stats_calls, consumer_gone_after: *consumer_gone_after, shutdown_after_yields: *shutdown_after_yields } });
                    }
                }
                for i in 0..dispatchers.len() {
                    for k in (0..dispatchers[i].len()).rev() {
                        let mut d = dispatchers.clone();
                        d[i].remove(k);
                        out.push(Scn { mode: Mode::Accounting { cfg: cfg.clone(), dispatchers: d, schedules: schedules.clone(), iters, sched: *sched, stats_calls: *stats_calls, consumer_gone_after: *consumer_gone_after, shutdown_after_yields: *shutdown_after_yields } });
                    }
                }
                if *stats_calls > 0 {
                    out.push(Scn { mode: Mode::Accounting { cfg: cfg.clone(), dispatchers: dispatchers.clone(), schedules: schedules.clone(), iters, sched: *sched, stats_calls: 0, consumer_gone_after: *consumer_gone_after, shutdown_after_yields: *shutdown_after_yields } });
                }
                if cfg.workers > 1 {
                    let mut c = cfg.clone();
                    c.workers -= 1;
                    out.push(Scn { mode: Mode::Accounting { cfg: c, dispatchers: dispatchers.clone(), schedules: schedules.clone(), iters, sched: *sched, stats_calls: *stats_calls, consumer_gone_after: *consumer_gone_after, shutdown_after_yields: *shutdown_after_yields } });
                }
            }
            Mode::Storm { cfg, frame, dispatchers, per_dispatcher, schedule, volume_frame_len } => {
                if *per_dispatcher > 1000 && *volume_frame_len == 0 {
                    out.push(Scn { mode: Mode::Storm { cfg: cfg.clone(), frame: frame.clone(), dispatchers: *dispatchers, per_dispatcher: per_dispatcher / 2, schedule: *schedule, volume_frame_len: 0 } });
                }
                if *dispatchers > 2 && *volume_frame_len == 0 {
                    out.push(Scn { mode: Mode::Storm { cfg: cfg.clone(), frame: frame.clone(), dispatchers: dispatchers - 1, per_dispatcher: *per_dispatcher, schedule: *schedule, volume_frame_len: 0 } });
                }
            }
            Mode::Affinity { kind, seg, variants, base_framing, must_differ_ok, all_patch, byte_variants } => {
                if variants.len() > 1 {
                    for v in variants {
                        out.push(Scn { mode: Mode::Affinity { kind: *kind, seg: seg.clone(), variants: vec![v.clone()], base_framing: *base_framing, must_differ_ok: *must_differ_ok, all_patch: *all_patch, byte_variants: vec![] } });
                    }
                }
                if !variants.is_empty() && !byte_variants.is_empty() {
                    out.push(Scn { mode: Mode::Affinity { kind: *kind, seg: seg.clone(), variants: vec![], base_framing: *base_framing, must_differ_ok: *must_differ_ok, all_patch: *all_patch, byte_variants: byte_variants.clone() } });
                }
            }
        }
        out
    }
}

// ----------------------------------------------------------------------------------------------
// C11, per-worker part: what a worker pool retains for a worker that has stopped consuming is bounded by the
// configured queue size. Fault: every worker stalls (descheduled node); the dispatcher keeps handing over frames.

#[derive(Clone, Debug, Serialize, Deserialize)]
pub struct StallScn {
    pub cfg: PoolCfg,
    #[serde(with = "crate::pkt::hexser")]
    pub frame: Vec<u8>,
    /// frames handed over while the workers are stalled
    pub n: usize,
    pub schedule: u64,
    /// sustained mode: the worker runs, one dispatcher hands over `n` frames that each yield exactly one result and
    /// collects the results as it goes; what the pool holds at any moment (queued and not yet delivered) is bounded
    /// by queue size + batch size
    #[serde(default)]
    pub sustained: bool,
}

pub struct C11Pool;

/// Sustained load on a running pool: (most frames held by the pool at once, frames queued, results received, error)
fn run_sustained(s: &StallScn, st: &mut RunStats) -> Result<(), Violation> {
    type Out = (usize, usize, usize, Option<String>);
    let slot: Arc<std::sync::Mutex<Out>> = Arc::new(std::sync::Mutex::new((0, 0, 0, None)));
    let (slot2, s2) = (slot.clone(), s.clone());
    pool::run_scheduled_steps(s.schedule, Sched::Random, 1, 60_000_000, move || {
        verif_chan::evlog_reset();
        verif_chan::reset_ids();
        let mut o: Out = (0, 0, 0, None);
        match pool::make_pool_try(&s2.cfg) {
            Err(e) => o.3 = Some(e),
            Ok((p, try_recv)) => {
                let mut drain = |o: &mut Out| loop {
                    match try_recv() {
                        Some(Some(_)) => o.2 += 1,
                        _ => break,
                    }
                };
                for i in 0..s2.n {
                    let mut f = s2.frame.clone();
                    // a flow of its own per frame: the TCP source port (Ethernet + option-less IPv4: offset 34)
                    let port = 1024 + (i % 60000) as u16;
                    f[34] = (port >> 8) as u8;
                    f[35] = port as u8;
                    let mut tries = 0;
                    while !p.dispatch(f.clone()) && tries < 100_000 {
                        tries += 1;
                        drain(&mut o);
                        shuttle::thread::yield_now();
                    }
                    if tries < 100_000 {
                        o.1 += 1;
                    }
                    drain(&mut o);
                    o.0 = o.0.max(o.1 - o.2);
                }
                drop(p);
                // what is still due arrives once the pool has been released
                for _ in 0..1_000_000 {
                    match try_recv() {
                        Some(Some(_)) => o.2 += 1,
                        Some(None) => shuttle::thread::yield_now(),
                        None => break,
                    }
                }
            }
        }
        *slot2.lock().unwrap() = o;
    });
    let (held, queued, received, err) = slot.lock().unwrap().clone();
    if let Some(e) = err {
        return Err(Violation::new("harness-error", "", e));
    }
    st.evals = 1;
    st.packets += s.n as u64;
    st.fault("sustained_load_results_consumed_as_they_come");
    st.ev_u64(s.cfg.queue as u64);
    st.ev_u64(s.cfg.batch as u64);
    st.ev(s.cfg.kind.name());
    st.probe_n("most_frames_held_by_a_running_pool", held as u64);
    let key = format!("{}:sustained", s.cfg.kind.name());
    if received != queued {
        return Err(Violation::new("result-count", key, format!("{} frames queued, each yields one result, {} results received after the pool was released", queued, received)));
    }
    // queued and not yet delivered = in the queue (<= queue size) or in the worker's batch (<= batch size), or on its way
    let bound = s.cfg.queue + s.cfg.batch + 2;
    if held > bound {
        return Err(Violation::new("pool-holds-more-than-queue-and-batch", key, format!("a running pool with queue size {} and batch size {} held {} frames that were queued and whose results had not been delivered (bound {}) while {} frames were handed over and the results were collected as they came", s.cfg.queue, s.cfg.batch, held, bound, s.n)));
    }
    st.nontrivial = queued > 0;
    Ok(())
}

#[derive(Clone, Debug, Default)]
struct StallOut {
    queued: usize,
    dropped: usize,
    max_depth: usize,
    depth_at_end: usize,
    stats_dropped: u64,
    drained: bool,
    err: Option<String>,
}

impl C11Pool {
    fn generate_sustained(r: &mut Rng, kind: PoolKind, queue: usize, batch: usize) -> StallScn {
        let h = tcp::Host::random(r);
        let cfg = PoolCfg { kind, workers: 1, queue, batch, timeout_ms: 10, cap: 64, with_db: false, filter: None };
        let (c, sv) = (Endpoint::v4(10, 77, 1, 1, 40000), Endpoint::v4(10, 77, 0, 2, 443));
        let seg = match kind {
            PoolKind::Tls => {
                let mut spec = crate::gen::tls::random_spec(r, 400);
                spec.target_len = 0;
                spec.coalesced_before = 0;
                spec.exact_body = None;
                tcp::data(&h, c, sv, 1001, 5001, crate::gen::tls::client_hello(r, &spec), 0, 0, pkt::ACK | pkt::PSH)
            }
            _ => tcp::syn(&h, c, sv, 1000, 0),
        };
        StallScn { cfg, frame: pkt::frame(&seg, Framing::Ethernet), n: 30 * (queue + batch) + r.urange(0, 200), schedule: r.next_u64(), sustained: true }
    }
}

impl Prop for C11Pool {
    type Scn = StallScn;
    const ID: &'static str = "C11";
    const ENGINE: &'static str = "poolsim";

    fn rule() -> &'static str {
        "poolsim part: one evaluation = one execution of a real worker pool whose workers are stalled while the dispatcher hands over queue_size + k frames; the depth of every worker queue (stats()) never exceeds the configured queue size, exactly the overflow is reported dropped and counted, and after the stall ends the queues drain; non-trivial = at least one frame queued and one dropped; distinct = distinct (pool, queue size, k)"
    }

    fn runs(tier: Tier) -> u64 {
        tier.pick(40, 300)
    }

    fn run_wall_limit_s() -> u64 {
        120
    }

    fn panics_are_violations() -> bool {
        true
    }

    fn systematic(_tier: Tier) -> Vec<StallScn> {
        // sustained load on every pool with small queues and odd batch sizes, six fixed schedules each
        let mut out = vec![];
        let mut r = Rng::new(0xC11_900);
        for kind in PoolKind::ALL {
            for (queue, batch) in [(4usize, 3usize), (16, 8)] {
                for k in 0..6u64 {
                    let mut s = Self::generate_sustained(&mut r, kind, queue, batch);
                    s.schedule = 0x5eed_0000 + k * 7919 + queue as u64;
                    out.push(s);
                }
            }
        }
        out
    }

    fn generate(r: &mut Rng, tier: Tier, _idx: u64) -> StallScn {
        let kind = *r.pick(&PoolKind::ALL);
        let queue = match r.below(6) {
            0 => r.urange(1, 8),
            1 => 64,
            2 => r.urange(100, 5000),
            3 => 65_536,
            _ => 65_537 + r.usize_below(tier.pick(2_000, 40_000)),
        };
        let h = tcp::Host::random(r);
        if r.chance(1, 2) {
            // sustained load: every frame yields exactly one result (TCP: a SYN; TLS: a single-segment ClientHello of a
            // flow of its own - the source port is rewritten per frame; HTTP: the pool answers every analysed frame)
            let queue = *r.pick(&[2usize, 4, 16, 64]);
            let batch = *r.pick(&[2usize, 3, 8, 32]);
            let _ = h;
            return Self::generate_sustained(r, kind, queue, batch);
        }
        let cfg = PoolCfg { kind, workers: 1, queue, batch: *r.pick(&[1usize, 16, 64]), timeout_ms: 10, cap: 64, with_db: false, filter: None };
        // a frame that yields no result in the TLS pool and a cheap (empty) one in the others: a bare ACK
        let seg = tcp::data(&h, Endpoint::v4(10, 77, 0, 1, 40000), Endpoint::v4(10, 77, 0, 2, 443), 1001, 5001, vec![], 0, 0, pkt::ACK);
        StallScn { cfg, frame: pkt::frame(&seg, Framing::Ethernet), n: queue + r.urange(1, 300), schedule: r.next_u64(), sustained: false }
    }

    fn run(s: &StallScn, st: &mut RunStats) -> Result<(), Violation> {
        if s.sustained {
            return run_sustained(s, st);
        }
        let slot: Arc<std::sync::Mutex<StallOut>> = Arc::new(std::sync::Mutex::new(StallOut::default()));
        let (slot2, s2) = (slot.clone(), s.clone());
        pool::run_scheduled_steps(s.schedule, Sched::Random, 1, 60_000_000, move || {
            let mut o = StallOut::default();
            verif_chan::evlog_reset();
            verif_chan::reset_ids();
            verif_chan::stall(true);
            match pool::make_pool(&s2.cfg) {
                Err(e) => o.err = Some(e),
                Ok((p, recv)) => {
                    // a consumer for whatever results the pool produces once the stall is over
                    let consumer = shuttle::thread::spawn(move || {
                        let mut n = 0usize;
                        while recv().is_some() {
                            n += 1;
                        }
                        n
                    });
                    for i in 0..s2.n {
                        if p.dispatch(s2.frame.clone()) {
                            o.queued += 1;
                        } else {
                            o.dropped += 1;
                        }
                        if i % 512 == 0 || i + 1 == s2.n {
                            o.max_depth = o.max_depth.max(p.stats().workers.iter().map(|w| w.0).max().unwrap_or(0));
                        }
                    }
                    let stx = p.stats();
                    o.depth_at_end = stx.workers.iter().map(|w| w.0).max().unwrap_or(0);
                    o.stats_dropped = stx.dropped;
                    verif_chan::stall(false);
                    for _ in 0..200_000 {
                        if p.stats().workers.iter().all(|w| w.0 == 0) {
                            o.drained = true;
                            break;
                        }
                        shuttle::thread::sleep(std::time::Duration::from_millis(0));
                    }
                    drop(p);
                    let _ = consumer.join();
                }
            }
            *slot2.lock().unwrap() = o;
        });
        let o = slot.lock().unwrap().clone();
        if let Some(e) = o.err {
            return Err(Violation::new("harness-error", "", e));
        }
        st.evals = 1;
        st.packets += s.n as u64;
        st.fault("workers_stalled");
        st.ev_u64(s.cfg.queue as u64);
        st.ev_u64(s.n as u64);
        st.ev(s.cfg.kind.name());
        st.probe_n("deepest_queue_seen", o.max_depth as u64);
        let key = s.cfg.kind.name();
        if o.max_depth > s.cfg.queue || o.depth_at_end > s.cfg.queue {
            return Err(Violation::new("queue-exceeds-configured-size", key, format!("workers stalled, {} frames handed over: stats() shows a worker queue holding {} frames, configured queue size {}", s.n, o.max_depth.max(o.depth_at_end), s.cfg.queue)));
        }
        if o.queued > s.cfg.queue {
            return Err(Violation::new("queue-exceeds-configured-size", key, format!("workers stalled: {} dispatches returned Queued with a queue of {}", o.queued, s.cfg.queue)));
        }
        if o.queued + o.dropped != s.n || o.stats_dropped != o.dropped as u64 {
            return Err(Violation::new("stats-dropped", key, format!("{} frames: {} queued, {} dropped, stats().total_dropped = {}", s.n, o.queued, o.dropped, o.stats_dropped)));
        }
        if !o.drained {
            return Err(Violation::new("queue-not-drained", key, "the stall ended but the queues never emptied".to_string()));
        }
        st.nontrivial = o.queued > 0 && o.dropped > 0;
        Ok(())
    }

    fn shrink(s: &StallScn) -> Vec<StallScn> {
        let mut out = vec![];
        if s.n > s.cfg.queue + 1 {
            let mut x = s.clone();
            x.n = s.cfg.queue + 1;
            out.push(x);
        }
        out
    }
}
