//! C01 — analysis is total: no input can crash, hang or poison an analyzer.
//!
//! Valid simulated traffic is pushed through the tap's fault pipeline (truncation, bit flips,
//! header-field and option rewrites, framing lies, spliced garbage) into every entry point, then a
//! clean probe is delivered on an unused 4-tuple. Oracle: no panic / arithmetic overflow (the
//! build has overflow checks on), termination within a wall limit, and the probe's results on the
//! used instance equal those on a fresh instance at the same simulated time.

use crate::conn::{self, Conn, ConnKind, ConnOpts, MergeMode};
use crate::gen::{http1, http2, tls};
use crate::pkt::{self, Endpoint, Framing};
use crate::rng::Rng;
use crate::runner::{Prop, RunStats, Tier, Violation};
use crate::sut::{self, Kind, SutCfg, Timed};
use crate::tap::{self, Fault};
use huginn_net_verif_rt::clock;
use serde::{Deserialize, Serialize};

#[derive(Clone, Debug, Serialize, Deserialize)]
pub enum Entry {
    /// link-layer frames into one of the four analyzers (per-packet path or the real packet loop)
    Frames { kind: Kind, cap: usize, via_loop: bool, with_db: bool, trace: Vec<Timed>, probe: Vec<Timed> },
    /// byte stream into TlsClientHelloReader, then reset() and a valid ClientHello
    TlsReader {
        #[serde(with = "crate::pkt::hexser")]
        stream: Vec<u8>,
        cuts: Vec<usize>,
        #[serde(with = "crate::pkt::hexser")]
        valid: Vec<u8>,
    },
    /// byte stream into Http2FingerprintExtractor, then reset() and a valid connection start
    H2Extractor {
        #[serde(with = "crate::pkt::hexser")]
        stream: Vec<u8>,
        cuts: Vec<usize>,
        #[serde(with = "crate::pkt::hexser")]
        valid: Vec<u8>,
    },
    /// bytes into HttpProcessors::parse_request / parse_response, then a valid message
    HttpParsers {
        #[serde(with = "crate::pkt::hexser")]
        data: Vec<u8>,
        #[serde(with = "crate::pkt::hexser")]
        valid_req: Vec<u8>,
        #[serde(with = "crate::pkt::hexser")]
        valid_resp: Vec<u8>,
    },
    /// text into Database::from_str
    DbText { text: String },
}

#[derive(Clone, Debug, Serialize, Deserialize)]
pub struct Scn {
    pub entry: Entry,
    /// which rewrite of the signature database the analyzers are given (0 = the bundled one)
    #[serde(default)]
    pub db_variant: u32,
}

pub struct C01;

fn probe_conns(r: &mut Rng, v6: bool, framing: Framing) -> Vec<Conn> {
    let o = ConnOpts { v6, framing, max_parts: 2, gap_lo: 200_000, gap_hi: 40_000_000, tls_single_segment: true };
    let (c1, s1, c2, s2) = if v6 {
        (Endpoint::v6(0x9901, 51000), Endpoint::v6(0x9902, 80), Endpoint::v6(0x9901, 51001), Endpoint::v6(0x9902, 443))
    } else {
        (Endpoint::v4(10, 9, 9, 1, 51000), Endpoint::v4(10, 9, 9, 2, 80), Endpoint::v4(10, 9, 9, 1, 51001), Endpoint::v4(10, 9, 9, 2, 443))
    };
    let third = if r.chance(1, 2) { ConnKind::Http2 } else { ConnKind::TcpOnly };
    vec![conn::build(r, ConnKind::Http1, c1, s1, &o), conn::build(r, ConnKind::Tls, c2, s2, &o), conn::build(r, third, Endpoint { port: 51002, ..c1 }, s1, &o)]
}

fn faulty_trace(r: &mut Rng, kind: Kind, v6: bool, framing: Framing, st_faults: &mut Vec<&'static str>) -> Vec<Timed> {
    let n = r.urange(1, 6);
    let eps = conn::endpoints(r, n, v6);
    let o = ConnOpts { v6, framing, max_parts: 4, gap_lo: 50_000, gap_hi: 20_000_000, tls_single_segment: false };
    let mut conns = vec![];
    for (c, s) in &eps {
        let ck = super::c07::kinds_for(kind, r);
        conns.push(conn::build(r, ck, *c, *s, &o));
    }
    let lens: Vec<usize> = conns.iter().map(|c| c.steps.len()).collect();
    let order = conn::merge_order(r, &lens, MergeMode::Uniform);
    let mut trace = conn::to_trace(&conns, &order);
    // 1..4 fault kinds enabled for this run
    let mut enabled: Vec<Fault> = vec![];
    for _ in 0..r.urange(1, 4) {
        enabled.push(*r.pick(&Fault::ALL));
    }
    let rate = *r.pick(&[2u64, 3, 5, 10]);
    for p in trace.iter_mut() {
        if r.chance(1, rate) {
            let f = *r.pick(&enabled);
            if tap::apply(r, f, &mut p.frame) {
                st_faults.push(f.name());
                if r.chance(1, 6) {
                    let f2 = *r.pick(&enabled);
                    if tap::apply(r, f2, &mut p.frame) {
                        st_faults.push(f2.name());
                    }
                }
            }
        }
    }
    for _ in 0..r.urange(0, 3) {
        let i = r.usize_below(trace.len() + 1);
        let t = if i == 0 { 0 } else { trace[i - 1].t + 300 };
        trace.insert(i, Timed { t, frame: tap::splice(r), conn: usize::MAX });
        st_faults.push("splice");
    }
    trace
}

fn corrupt_bytes(r: &mut Rng, v: &mut Vec<u8>) -> &'static str {
    if v.is_empty() {
        return "none";
    }
    match r.below(5) {
        0 => {
            let n = r.usize_below(v.len());
            v.truncate(n);
            "torn"
        }
        1 => {
            for _ in 0..r.urange(1, 6) {
                let i = r.usize_below(v.len());
                v[i] ^= 1 << r.below(8);
            }
            "flipped_byte"
        }
        2 => {
            let i = r.usize_below(v.len());
            let n = r.urange(1, 40);
            let junk = r.bytes(n);
            for (k, b) in junk.into_iter().enumerate() {
                if i + k < v.len() {
                    v[i + k] = b;
                }
            }
            "overwrite"
        }
        3 => {
            // length-field attack: set a random 16-bit big-endian field to an extreme
            if v.len() > 4 {
                let i = r.usize_below(v.len() - 1);
                let x = *r.pick(&[0u16, 1, 0xffff, 0xfffe, 0x4000, 0x8000]);
                v[i] = (x >> 8) as u8;
                v[i + 1] = x as u8;
            }
            "length_field"
        }
        _ => {
            let n = r.urange(1, 200);
            *v = r.bytes(n);
            "random_bytes"
        }
    }
}

fn db_text() -> &'static str {
    static T: std::sync::OnceLock<String> = std::sync::OnceLock::new();
    T.get_or_init(|| {
        let repo = std::env::var("VERIF_REPO").unwrap_or_else(|_| "/repo".to_string());
        std::fs::read_to_string(format!("{}/huginn-net-db/config/p0f.fp", repo)).unwrap_or_else(|_| "[tcp:request]\nlabel = s:unix:Linux:3.x\nsig = *:64:0:*:mss*10,6:mss,sok,ts,nop,ws:df,id+:0\n".to_string())
    })
}

fn pcap_frames() -> &'static Vec<Vec<u8>> {
    static F: std::sync::OnceLock<Vec<Vec<u8>>> = std::sync::OnceLock::new();
    F.get_or_init(|| {
        let repo = std::env::var("VERIF_REPO").unwrap_or_else(|_| "/repo".to_string());
        let mut out = vec![];
        for name in ["http-simple-get.pcap", "macos_tcp_flags.pcap", "tls-alpn-h2.pcap", "tls12.pcap"] {
            if let Ok(b) = std::fs::read(format!("{}/pcap/{}", repo, name)) {
                if b.len() < 24 {
                    continue;
                }
                let le = b[0] == 0xd4;
                let rd = |x: &[u8]| -> usize {
                    if le {
                        u32::from_le_bytes([x[0], x[1], x[2], x[3]]) as usize
                    } else {
                        u32::from_be_bytes([x[0], x[1], x[2], x[3]]) as usize
                    }
                };
                let mut off = 24;
                while off + 16 <= b.len() {
                    let incl = rd(&b[off + 8..off + 12]);
                    off += 16;
                    if off + incl > b.len() {
                        break;
                    }
                    out.push(b[off..off + incl].to_vec());
                    off += incl;
                }
            }
        }
        out
    })
}

impl Prop for C01 {
    type Scn = Scn;
    const ID: &'static str = "C01";
    const ENGINE: &'static str = crate::NETSIM_ENGINE;

    fn rule() -> &'static str {
        "one evaluation = one faulty history (valid traffic through 1..4 fault kinds, or a corrupted stream/text) into one entry point followed by a clean probe, checked for panic/overflow/hang and for probe-equals-fresh-instance; non-trivial = at least one fault actually fired AND the probe produced at least one result; distinct = distinct event-log hash. Systematic scenarios enumerate TCP option (kind,len,position) encodings, every truncation length and every single-bit flip of the first 80 bytes of fixed frames."
    }

    fn runs(tier: Tier) -> u64 {
        tier.pick(40_000, 3_000_000)
    }

    fn panics_are_violations() -> bool {
        true
    }

    fn run_wall_limit_s() -> u64 {
        15
    }

    fn generate(r: &mut Rng, _tier: Tier, _idx: u64) -> Scn {
        let which = r.below(20);
        let entry = if which < 12 {
            let kind = *r.pick(&Kind::ALL);
            let v6 = r.chance(1, 4);
            let foreign = Framing::NullFamily { fam: *r.pick(&[2u8, 10, 24, 28, 30]), big_endian: r.chance(1, 2) };
            let tagged = Framing::Vlan { tpid: *r.pick(&[0x8100u16, 0x88a8]), tci: r.u16() };
            let cooked = Framing::Sll { pkttype: *r.pick(&[0u8, 4]) };
            let framing = *r.pick(&[Framing::Ethernet, Framing::Ethernet, Framing::Ethernet, Framing::RawIp, Framing::RawIp, Framing::Null1e, Framing::NullAf, foreign, tagged, cooked]);
            let mut names = vec![];
            let trace = faulty_trace(r, kind, v6, framing, &mut names);
            let pc = probe_conns(r, v6, if matches!(framing, Framing::NullAf | Framing::NullFamily { .. } | Framing::Vlan { .. } | Framing::Sll { .. }) { Framing::Ethernet } else { framing });
            let lens: Vec<usize> = pc.iter().map(|c| c.steps.len()).collect();
            let order = conn::merge_order(r, &lens, MergeMode::RoundRobin);
            let base = trace.last().map(|p| p.t).unwrap_or(0) + 1_000_000;
            let mut probe = conn::to_trace(&pc, &order);
            for p in probe.iter_mut() {
                p.t += base;
            }
            Entry::Frames { kind, cap: *r.pick(&[64usize, 256, 1000]), via_loop: r.chance(1, 4), with_db: !r.chance(1, 6), trace, probe }
        } else if which < 14 {
            let spec = tls::random_spec(r, 4000);
            let mut stream = tls::client_hello(r, &spec);
            stream.extend_from_slice(&tls::trailing(r));
            corrupt_bytes(r, &mut stream);
            if r.chance(1, 4) {
                // degenerate records, uncorrupted: alone, or in front of the stream
                let mut d = tls::degenerate(r);
                if r.chance(1, 2) {
                    d.extend_from_slice(&stream);
                }
                stream = d;
            }
            let n = r.urange(1, 8);
            let cuts = r.cuts(stream.len().max(2), n);
            let vspec = tls::random_spec(r, 1500);
            Entry::TlsReader { stream, cuts, valid: tls::client_hello(r, &vspec) }
        } else if which < 16 {
            let o = http2::Opts { request: true, hostile: *r.pick(&[http2::Hostile::None, http2::Hostile::BogusRef, http2::Hostile::SizeHuge]), fancy_headers: true, odd_order: true, self_ref: false, continuation: false, big_frame: None, announce_max_frame: false, huge_block: 0, extra_streams: 0, leading_frames: 0 };
            let (mut stream, _) = http2::connection_start(r, &o);
            corrupt_bytes(r, &mut stream);
            let n = r.urange(1, 8);
            let cuts = r.cuts(stream.len().max(2), n);
            let (valid, _) = http2::connection_start(r, &http2::Opts { request: true, hostile: http2::Hostile::None, fancy_headers: false, odd_order: false, self_ref: false, continuation: false, big_frame: None, announce_max_frame: false, huge_block: 0, extra_streams: 0, leading_frames: 0 });
            Entry::H2Extractor { stream, cuts, valid }
        } else if which < 19 {
            let mut data = match r.below(6) {
                4 => http1::exotic_request(r).bytes,
                5 => http1::exotic_response(r).bytes,
                0 => http1::request(r, 200).bytes,
                1 => http1::response(r, 200).bytes,
                2 => http2::connection_start(r, &http2::Opts { request: true, hostile: http2::Hostile::BogusRef, fancy_headers: true, odd_order: true, self_ref: true, continuation: false, big_frame: None, announce_max_frame: false, huge_block: 0, extra_streams: 0, leading_frames: 0 }).0,
                _ => http2::connection_start(r, &http2::Opts { request: false, hostile: http2::Hostile::SizeHuge, fancy_headers: true, odd_order: false, self_ref: false, continuation: false, big_frame: None, announce_max_frame: false, huge_block: 0, extra_streams: 0, leading_frames: 0 }).0,
            };
            // exotic (legal, unusual) messages are also tried as they are; the rest go through the corruptor
            if !(std::str::from_utf8(&data).is_ok() && r.chance(1, 2)) {
                corrupt_bytes(r, &mut data);
            }
            Entry::HttpParsers { data, valid_req: http1::request(r, 50).bytes, valid_resp: http1::response(r, 50).bytes }
        } else {
            let mut text = db_text().as_bytes().to_vec();
            match r.below(5) {
                0 => {
                    let n = r.usize_below(text.len());
                    text.truncate(n);
                }
                1 => {
                    for _ in 0..r.urange(1, 20) {
                        let i = r.usize_below(text.len());
                        text[i] ^= 1 << r.below(7);
                    }
                }
                2 => {
                    // drop / duplicate / reorder lines
                    let s = String::from_utf8_lossy(&text).to_string();
                    let mut lines: Vec<&str> = s.lines().collect();
                    for _ in 0..r.urange(1, 10) {
                        let i = r.usize_below(lines.len());
                        match r.below(3) {
                            0 => {
                                lines.remove(i);
                            }
                            1 => {
                                let l = lines[i];
                                lines.insert(i, l);
                            }
                            _ => {
                                let j = r.usize_below(lines.len());
                                lines.swap(i, j);
                            }
                        }
                    }
                    text = lines.join("\n").into_bytes();
                }
                3 => {
                    let a = r.usize_below(text.len());
                    let b = (a + r.urange(1, 3000)).min(text.len());
                    text = text[a..b].to_vec();
                }
                _ => {
                    let i = r.usize_below(text.len());
                    let n = r.urange(1, 60);
                    let junk: Vec<u8> = r.bytes(n).into_iter().map(|b| 32 + b % 95).collect();
                    text.splice(i..i, junk);
                }
            }
            Entry::DbText { text: String::from_utf8_lossy(&text).to_string() }
        };
        // one frame scenario in five runs against a rewritten signature database
        let db_variant = if matches!(entry, Entry::Frames { .. }) && r.chance(1, 5) { 1 + r.below(sut::DB_VARIANTS as u64) as u32 } else { 0 };
        Scn { entry, db_variant }
    }

    fn systematic(tier: Tier) -> Vec<Scn> {
        let mut out = vec![];
        let mut r = Rng::new(0xC01);
        let c = Endpoint::v4(10, 8, 0, 1, 50000);
        let s = Endpoint::v4(10, 8, 0, 2, 80);
        let pc = probe_conns(&mut r, false, Framing::Ethernet);
        let lens: Vec<usize> = pc.iter().map(|c| c.steps.len()).collect();
        let order = conn::merge_order(&mut r, &lens, MergeMode::RoundRobin);
        let mut probe = conn::to_trace(&pc, &order);
        for p in probe.iter_mut() {
            p.t += 10_000_000_000;
        }
        let mk = |kind: Kind, frames: Vec<Vec<u8>>| -> Scn {
            let trace = frames.into_iter().enumerate().map(|(i, f)| Timed { t: i as u64 * 1000, frame: f, conn: 0 }).collect();
            Scn { entry: Entry::Frames { kind, cap: 256, via_loop: false, with_db: true, trace, probe: probe.clone() }, db_variant: 0 }
        };
        // (1) every (kind, length byte, position) TCP option encoding in SYN and SYN+ACK
        let kinds: Vec<u8> = (0..=8).chain([30u8, 34, 253, 255]).collect();
        let lens_b: Vec<u8> = tier.pick((0..=12).chain([20u8, 40, 41, 255]).collect::<Vec<_>>(), (0..=41).chain([128u8, 255]).collect::<Vec<_>>());
        for flags in [pkt::SYN, pkt::SYN | pkt::ACK] {
            for target in [Kind::Tcp, Kind::Unified] {
                let mut frames = vec![];
                for k in &kinds {
                    for l in &lens_b {
                        for pos in tier.pick(vec![0usize, 4, 36, 38, 39], (0..40).collect::<Vec<_>>()) {
                            let mut seg = pkt::Seg::new(c, s);
                            seg.flags = flags;
                            seg.seq = 1;
                            let mut o = vec![1u8; 40];
                            o[pos] = *k;
                            if pos + 1 < 40 {
                                o[pos + 1] = *l;
                            }
                            seg.tcp_opts = o;
                            frames.push(pkt::frame(&seg, Framing::Ethernet));
                        }
                    }
                }
                for ch in frames.chunks(400) {
                    out.push(mk(target, ch.to_vec()));
                }
            }
        }
        // (2) every truncation length and (3) every single-bit flip in the first 80 bytes of fixed frames
        let mut fixed: Vec<Vec<u8>> = vec![];
        let o = ConnOpts::default();
        for ck in [ConnKind::Http1, ConnKind::Tls, ConnKind::Http2] {
            let cn = conn::build(&mut r, ck, c, s, &o);
            for i in 0..cn.steps.len() {
                fixed.push(cn.frame(i));
            }
        }
        let pf = pcap_frames();
        let take = tier.pick(12, pf.len());
        fixed.extend(pf.iter().take(take).cloned());
        for kind in Kind::ALL {
            let mut frames = vec![];
            for f in &fixed {
                let maxlen = tier.pick(f.len().min(120), f.len());
                for n in 0..maxlen {
                    frames.push(f[..n].to_vec());
                }
                for bit in 0..(f.len().min(80) * 8) {
                    if tier == Tier::Quick && bit % 3 != 0 {
                        continue;
                    }
                    let mut g = f.clone();
                    g[bit / 8] ^= 1 << (bit % 8);
                    frames.push(g);
                }
            }
            for ch in frames.chunks(600) {
                out.push(mk(kind, ch.to_vec()));
            }
        }
        // (m) MSS, window and window-scale values at the top of their ranges, paired: SYN and SYN+ACK over IPv4 (with
        // and without IP options) and IPv6, MSS 65495..65535 under every larger window, scale 0/14/15/255
        {
            let c6 = Endpoint::v6(0x77, 50000);
            let s6 = Endpoint::v6(0x78, 443);
            for (cl, sv) in [(c, s), (c6, s6)] {
                for target in [Kind::Tcp, Kind::Unified] {
                    let mut frames = vec![];
                    for mss in (65495u32..=65535).chain([0, 1, 536, 1460, 32768, 65280]) {
                        let mss = mss as u16;
                        let mut wins: Vec<u16> = vec![mss, mss.wrapping_add(1), 65535, 65534, mss.wrapping_mul(2), 0];
                        if tier == Tier::Thorough {
                            wins.extend((mss..=65535).step_by(3));
                        }
                        for (wi, win) in wins.iter().enumerate() {
                            let mut seg = pkt::Seg::new(cl, sv);
                            seg.flags = if wi % 2 == 0 { pkt::SYN } else { pkt::SYN | pkt::ACK };
                            seg.seq = 1;
                            seg.window = *win;
                            let mut o = pkt::opt::mss(mss);
                            o.extend(pkt::opt::nop());
                            o.extend(pkt::opt::ws(*[0u8, 14, 15, 255, 7].get(wi % 5).unwrap_or(&0)));
                            if wi % 3 == 0 {
                                o.extend(pkt::opt::sackok());
                                o.extend(pkt::opt::ts(1, 0));
                            }
                            seg.tcp_opts = o;
                            if wi % 4 == 1 && cl.is_v4() {
                                seg.ip_opts = vec![1u8; 4 * (1 + wi % 10)];
                            }
                            frames.push(pkt::frame(&seg, Framing::Ethernet));
                        }
                    }
                    for ch in frames.chunks(300) {
                        out.push(mk(target, ch.to_vec()));
                    }
                }
            }
        }
        // (n) every degenerate TLS record (any content type and version, bodies of 0..6 bytes) alone through the
        // ClientHello reader and, as a flow's only data, through the TLS analyzer - each four times in a row, so that
        // one copy meets each of the run-index-dependent configurations (logging is on for one run in four)
        {
            let mut r2 = Rng::new(0xC01_7E5);
            let vspec = tls::random_spec(&mut r2, 600);
            let valid = tls::client_hello(&mut r2, &vspec);
            const BODIES: [&[u8]; 10] = [&[], &[0], &[1], &[1, 0], &[1, 0, 0], &[1, 0, 0, 0], &[1, 0, 0, 5], &[0, 0, 0, 0], &[2, 0, 0, 0], &[1, 0, 0, 2, 3, 3]];
            for ct in [0x16u8, 0x14, 0x15, 0x17, 0x18] {
                for ver in [0x0301u16, 0x0303, 0x0300, 0x0304] {
                    let mut frames = vec![];
                    for body in BODIES.iter() {
                        let rec = tls::record(ct, ver, body);
                        for _ in 0..4 {
                            out.push(Scn { entry: Entry::TlsReader { stream: rec.clone(), cuts: vec![], valid: valid.clone() }, db_variant: 0 });
                        }
                        let mut seg = pkt::Seg::new(Endpoint::v4(10, 8, 1, body.len() as u8 + 1, 50000 + ct as u16), Endpoint::v4(10, 8, 0, 2, 443));
                        seg.flags = pkt::ACK | pkt::PSH;
                        seg.seq = 1001;
                        seg.payload = rec;
                        frames.push(pkt::frame(&seg, Framing::Ethernet));
                    }
                    for _ in 0..4 {
                        out.push(mk(Kind::Tls, frames.clone()));
                    }
                }
            }
        }
        out
    }

    fn run(scn: &Scn, st: &mut RunStats) -> Result<(), Violation> {
        sut::set_db_variant(scn.db_variant);
        if scn.db_variant != 0 {
            st.fault("rewritten_signature_database");
        }
        match &scn.entry {
            Entry::Frames { kind, cap, via_loop, with_db, trace, probe } => {
                let mut cfg = SutCfg::new(*kind, *cap);
                cfg.with_db = *with_db || *kind == Kind::Unified;
                let key = kind.name();
                for p in trace {
                    if p.conn == usize::MAX {
                        st.fault("splice");
                    }
                }
                st.fault_n("faulty_frames_delivered", trace.len() as u64);
                clock::arm(1_700_000_000_000);
                let mut all: Vec<Timed> = trace.clone();
                all.extend(probe.iter().cloned());
                #[cfg(not(huginn_net_verif_sched))]
                let used = if *via_loop { sut::run_loop(&cfg, &all) } else { sut::run_deliver(&cfg, &all) };
                #[cfg(huginn_net_verif_sched)]
                let used = {
                    let _ = via_loop;
                    sut::run_deliver(&cfg, &all)
                };
                let used = used.map_err(|e| Violation::new("harness-error", "", e))?;
                clock::arm(1_700_000_000_000);
                let fresh = sut::run_deliver(&cfg, probe).map_err(|e| Violation::new("harness-error", "", e))?;
                st.packets += (all.len() + probe.len()) as u64;
                st.sim_ns += all.last().map(|p| p.t).unwrap_or(0);
                let used_probe = &used[trace.len()..];
                let mut any = false;
                for (i, (u, f)) in used_probe.iter().zip(fresh.iter()).enumerate() {
                    for o in &f.obs {
                        st.ev(&o.text);
                        any = true;
                    }
                    if u.obs != f.obs {
                        return Err(Violation::new(
                            "poisoned",
                            key,
                            format!("probe packet {} after {} faulty frames: used instance reports [{}], fresh instance reports [{}]", i, trace.len(), u.obs.iter().map(|o| o.short()).collect::<Vec<_>>().join(" | "), f.obs.iter().map(|o| o.short()).collect::<Vec<_>>().join(" | ")),
                        ));
                    }
                }
                if any {
                    st.probe("probe_produced_results");
                }
                st.nontrivial = any && !trace.is_empty();
                Ok(())
            }
            Entry::TlsReader { stream, cuts, valid } => {
                st.fault("corrupted_tls_stream");
                let mut rd = huginn_net_tls::TlsClientHelloReader::new();
                let mut a = 0;
                for c in cuts.iter().chain(std::iter::once(&stream.len())) {
                    if *c > a && *c <= stream.len() {
                        let _ = rd.add_bytes(&stream[a..*c]);
                        st.packets += 1;
                        a = *c;
                    }
                }
                rd.reset();
                let got = rd.add_bytes(valid).ok().flatten().map(|s| format!("{:?}", s));
                let mut fr = huginn_net_tls::TlsClientHelloReader::new();
                let want = fr.add_bytes(valid).ok().flatten().map(|s| format!("{:?}", s));
                if let Some(w) = &want {
                    st.ev(w);
                    st.probe("probe_produced_results");
                    st.nontrivial = true;
                }
                if got != want {
                    return Err(Violation::new("poisoned", "tls-reader", format!("after a corrupted stream and reset(): {:?}; fresh reader: {:?}", got, want)));
                }
                Ok(())
            }
            Entry::H2Extractor { stream, cuts, valid } => {
                st.fault("corrupted_h2_stream");
                let mut ex = huginn_net_http::Http2FingerprintExtractor::new();
                let mut a = 0;
                for c in cuts.iter().chain(std::iter::once(&stream.len())) {
                    if *c > a && *c <= stream.len() {
                        let _ = ex.add_bytes(&stream[a..*c]);
                        st.packets += 1;
                        a = *c;
                    }
                }
                let _ = huginn_net_http::extract_akamai_fingerprint_from_bytes(stream);
                ex.reset();
                let got = ex.add_bytes(valid).ok().flatten().map(|f| f.fingerprint);
                let mut fr = huginn_net_http::Http2FingerprintExtractor::new();
                let want = fr.add_bytes(valid).ok().flatten().map(|f| f.fingerprint);
                if let Some(w) = &want {
                    st.ev(w);
                    st.probe("probe_produced_results");
                    st.nontrivial = true;
                }
                if got != want {
                    return Err(Violation::new("poisoned", "h2-extractor", format!("after a corrupted stream and reset(): {:?}; fresh extractor: {:?}", got, want)));
                }
                Ok(())
            }
            Entry::HttpParsers { data, valid_req, valid_resp } => {
                st.fault("corrupted_http_bytes");
                let p = huginn_net_http::http_process::HttpProcessors::new();
                let _ = p.parse_request(data);
                let _ = p.parse_response(data);
                let fresh = huginn_net_http::http_process::HttpProcessors::new();
                let a = (p.parse_request(valid_req).map(|x| format!("{:?}", x)), p.parse_response(valid_resp).map(|x| format!("{:?}", x)));
                let b = (fresh.parse_request(valid_req).map(|x| format!("{:?}", x)), fresh.parse_response(valid_resp).map(|x| format!("{:?}", x)));
                st.packets += 4;
                if let Some(w) = &b.0 {
                    st.ev(w);
                    st.probe("probe_produced_results");
                    st.nontrivial = true;
                }
                if a != b {
                    return Err(Violation::new("poisoned", "http-parsers", "a processor that has seen corrupted bytes parses the next valid message differently from a fresh one".to_string()));
                }
                Ok(())
            }
            Entry::DbText { text } => {
                st.fault("corrupted_database_text");
                use std::str::FromStr;
                let r = huginn_net_db::Database::from_str(text);
                st.ev(if r.is_ok() { "db-ok" } else { "db-err" });
                st.packets += 1;
                st.nontrivial = true;
                Ok(())
            }
        }
    }

    fn shrink(scn: &Scn) -> Vec<Scn> {
        let mut out = vec![];
        if let Entry::Frames { kind, cap, via_loop, with_db, trace, probe } = &scn.entry {
            let n = trace.len();
            let mk = |t: Vec<Timed>, p: Vec<Timed>| Scn { entry: Entry::Frames { kind: *kind, cap: *cap, via_loop: false, with_db: *with_db, trace: t, probe: p }, db_variant: scn.db_variant };
            if *via_loop {
                out.push(mk(trace.clone(), probe.clone()));
            }
            if !probe.is_empty() {
                out.push(mk(trace.clone(), vec![]));
            }
            let mut chunk = n / 2;
            while chunk >= 1 {
                let mut i = 0;
                while i < n {
                    let mut t = trace.clone();
                    let e = (i + chunk).min(t.len());
                    t.drain(i..e);
                    out.push(mk(t, probe.clone()));
                    i += chunk;
                }
                if chunk == 1 {
                    break;
                }
                chunk /= 2;
                if out.len() > 600 {
                    break;
                }
            }
        }
        out
    }

    fn sample(scn: &Scn) -> serde_json::Value {
        let v = serde_json::to_value(scn).unwrap_or(serde_json::Value::Null);
        crate::runner::truncate_json(v, 1)
    }
}
