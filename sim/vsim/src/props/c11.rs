//! C11 — memory per connection and work per packet stay bounded for any traffic.
//!
//! Long simulated connections that never yield a fingerprint (endless HTTP-looking heads, binary
//! after a SYN, a TLS record that declares more than ever arrives, application data after a
//! non-hello record, random bytes) run in parallel on one analyzer, with the simulated clock
//! advancing so that entries expire. A counting allocator is sampled around every delivered
//! packet: `alloc_i` = bytes allocated while handling packet i, `live_i` = heap bytes live after it.

use crate::alloc;
use crate::gen::{http1, tls};
use crate::pkt::{self, Endpoint, Framing};
use crate::rng::Rng;
use crate::runner::{Prop, RunStats, Tier, Violation};
use crate::sut::{Kind, Sut, SutCfg};
use huginn_net_verif_rt::clock;
use serde::{Deserialize, Serialize};

/// fixed per-connection limit: two directions x (64 KiB of buffered payload + up to 2048 stored
/// segments x ~64 B of bookkeeping each), rounded up; also covers the 64 KiB TLS record + one segment
pub const L_PER_CONN: i64 = 512 * 1024;
/// allocator noise, result strings, cache bookkeeping
pub const SLACK: i64 = 1024 * 1024;
/// constant part of the per-packet work bound (bytes allocated): re-examining one full
/// per-direction buffer (64 KiB) costs the parsers ~17x its size in temporary allocations (lossy
/// UTF-8 views, line vectors, frame copies - measured 17x..21x depending on the bytes); 4 MiB is about 3x that plateau
pub const A_CONST: u64 = 4 * 1024 * 1024;
/// CPU time one packet may cost (thread CPU clock): 50 ms - healthy is well under 1 ms
const T_PER_PACKET_NS: u64 = 50_000_000;
/// per-byte part of the per-packet work bound
pub const B_PER_BYTE: u64 = 64;

#[derive(Clone, Copy, Debug, PartialEq, Eq, Serialize, Deserialize)]
pub enum Traffic {
    /// SYN, then an HTTP request head that never ends (client direction)
    EndlessHttpHead,
    /// SYN, SYN+ACK, then an HTTP response head that never ends (server direction)
    EndlessHttpResponseHead,
    /// SYN then binary bytes
    BinaryAfterSyn,
    /// a TLS handshake record header declaring 0xFFFF bytes, then an endless body
    TlsHugeDeclared,
    /// a complete handshake record that is not a ClientHello, then application-data records
    TlsAppDataAfterNonHello,
    /// back-to-back complete handshake records that are not a ClientHello (HelloRequest, ServerHelloDone,
    /// small certificates), many per segment: every record is valid, none ever yields a fingerprint
    TlsManyNonHelloRecords,
    /// random bytes without a SYN
    RandomNoSyn,
    /// the SYN sender carries a complete *response* head (or the responder a request head), then endless data:
    /// "complete HTTP data" for the quick check, never a message for the direction's parser
    WrongKindThenEndless,
    /// contrast: a connection that completes (HTTP exchange / ClientHello) and then keeps sending
    Completing,
    /// an HTTP request head that never ends and consists of folded continuation lines (obs-fold: lines that
    /// start with a space or a tab), thousands of them
    EndlessFoldedHead,
    /// the same data-carrying SYN (TCP Fast Open, same sequence number) over and over - a retransmitting client or a
    /// replayed SYN - and, as the last segment, ordinary data
    RepeatedSynWithData,
}

#[derive(Clone, Debug, Serialize, Deserialize)]
pub struct LongConn {
    pub traffic: Traffic,
    pub client: Endpoint,
    pub server: Endpoint,
    pub seg_size: usize,
    pub n_segs: usize,
    pub payload_seed: u64,
}

#[derive(Clone, Debug, Serialize, Deserialize)]
pub struct Scn {
    pub kind: Kind,
    pub cap: usize,
    pub conns: Vec<LongConn>,
    /// simulated gap between consecutive deliveries (ns)
    pub gap_ns: u64,
    /// every `idle_every` deliveries the clock jumps ahead by `idle_ns` (lets TTLs expire)
    pub idle_every: usize,
    pub idle_ns: u64,
    /// population scenario: instead of a few long connections, a long succession of short complete ones
    #[serde(default)]
    pub churn: Option<Churn>,
    /// crowd scenario: thousands of simultaneously tracked connections whose addresses come from a structured family
    #[serde(default)]
    pub crowd: Option<Crowd>,
    /// noise scenario: tens of thousands of frames that belong to no connection at all and are all different
    #[serde(default)]
    pub noise: Option<Noise>,
}

/// `n` distinct frames no analyzer can use: IPv4 fragments of TCP datagrams, other transport protocols, TCP
/// segments with impossible flag combinations, truncated frames, foreign EtherTypes. None of them opens or belongs
/// to a connection, so nothing about them may be retained: memory must not grow with their number.
#[derive(Clone, Debug, Serialize, Deserialize)]
pub struct Noise {
    pub n: usize,
    pub seed: u64,
    /// bit set of the frame kinds in use (0..6)
    pub kinds: u8,
}

fn noise_frame(nz: &Noise, i: usize) -> Vec<u8> {
    let mut r = Rng::new(nz.seed ^ crate::rng::mix64(i as u64 + 1));
    let kinds: Vec<u8> = (0..6u8).filter(|k| nz.kinds & (1 << k) != 0).collect();
    let k = if kinds.is_empty() { 0 } else { kinds[i % kinds.len()] };
    let h = crate::gen::tcp::Host { profile: i % 4, ts_hz: 1000, ts_base: i as u32, ttl: 64 };
    let v6 = k == 3;
    let (c, sv) = if v6 {
        (Endpoint::v6(1 + (i % 60000) as u16, 1024 + (i % 50000) as u16), Endpoint::v6(0x900, 80))
    } else {
        (Endpoint::v4(10, 20 + (i >> 16) as u8, (i >> 8) as u8, i as u8, 1024 + (i % 60000) as u16), Endpoint::v4(10, 4, r.u8(), 1 + r.below(250) as u8, *r.pick(&[80u16, 443, 8080])))
    };
    let mut seg = if r.chance(1, 2) { crate::gen::tcp::syn(&h, c, sv, r.u32(), 0) } else { crate::gen::tcp::data(&h, c, sv, r.u32(), r.u32(), r.bytes(r.clone().urange(1, 64)), 0, 1, pkt::ACK | pkt::PSH) };
    if k == 2 {
        // flag combinations no TCP sends: SYN+FIN, SYN+RST, none at all, everything
        seg.flags = *r.pick(&[pkt::SYN | pkt::FIN, pkt::SYN | pkt::RST, 0u8, 0xff, pkt::SYN | pkt::FIN | pkt::RST, pkt::FIN | pkt::RST | 0x20]);
    }
    let mut f = pkt::frame(&seg, Framing::Ethernet);
    let ip = 14;
    match k {
        0 => {
            // a fragment: MF set and/or a fragment offset, any identification
            let id = r.u16().to_be_bytes();
            f[ip + 4] = id[0];
            f[ip + 5] = id[1];
            let off = if r.chance(1, 3) { 0 } else { 1 + r.below(8000) as u16 };
            let mf = if off == 0 || r.chance(1, 2) { 0x2000u16 } else { 0 };
            let w = (mf | off).to_be_bytes();
            f[ip + 6] = w[0];
            f[ip + 7] = w[1];
        }
        1 => {
            // another transport protocol
            f[ip + 9] = *r.pick(&[1u8, 2, 17, 17, 47, 50, 51, 89, 132, 136, 255, r.clone().u8() | 0x40]);
        }
        3 => {
            // IPv6 with another next header
            f[ip + 6] = *r.pick(&[0u8, 17, 43, 44, 44, 58, 59, 60, 135]);
        }
        4 => {
            let n = r.usize_below(f.len());
            f.truncate(n);
        }
        5 => {
            let et = *r.pick(&[0x0806u16, 0x8035, 0x88cc, 0x8847, 0x0842, 0x22f0]);
            f[12] = (et >> 8) as u8;
            f[13] = et as u8;
        }
        _ => {}
    }
    f
}

/// Noise scenario: nothing in it is a connection, so retained memory has to stay where it was.
fn run_noise(s: &Scn, nz: &Noise, st: &mut RunStats) -> Result<(), Violation> {
    clock::arm(1_700_000_000_000);
    let cfg = SutCfg::new(s.kind, s.cap);
    let mut sut = Sut::new(&cfg).map_err(|e| Violation::new("harness-error", "", e))?;
    let key = format!("{}:noise", s.kind.name());
    // warm the analyzer with one ordinary connection before the baseline (lazily created tables)
    {
        let h = crate::gen::tcp::Host { profile: 0, ts_hz: 1000, ts_base: 77, ttl: 64 };
        let (c, sv) = (Endpoint::v4(10, 3, 0, 1, 40000), Endpoint::v4(10, 4, 0, 1, 80));
        for seg in [crate::gen::tcp::syn(&h, c, sv, 1000, 0), crate::gen::tcp::syn_ack(&h, c, sv, 5000, 1000, 0, 1)] {
            let _ = sut.deliver(&pkt::frame(&seg, Framing::Ethernet));
        }
        for i in 0..64 {
            let _ = sut.deliver(&noise_frame(nz, nz.n + i));
        }
    }
    let base = alloc::snap().live();
    let live_bound = L_PER_CONN * s.cap.max(1) as i64 + SLACK;
    let mut lives: Vec<i64> = Vec::with_capacity(nz.n);
    let mut results = 0u64;
    for i in 0..nz.n {
        let frame = noise_frame(nz, i);
        clock::advance_ns(s.gap_ns);
        let before = alloc::snap();
        let out = sut.deliver(&frame);
        let after = alloc::snap();
        results += out.obs.len() as u64;
        drop(out);
        st.packets += 1;
        let alloc_i = after.allocated - before.allocated;
        if alloc_i > A_CONST + B_PER_BYTE * frame.len() as u64 {
            return Err(Violation::new("per-packet-work", key, format!("frame {} of the noise: handling one {} B frame allocated {} KiB", i, frame.len(), alloc_i / 1024)));
        }
        let live_i = alloc::snap().live() - base;
        lives.push(live_i);
        if i % 1024 == 0 {
            st.ev_u64((live_i.max(0) as u64) / 65536);
        }
        if live_i > live_bound {
            return Err(Violation::new("retained-memory", key, format!("after {} frames that belong to no connection the analyzer retains {} KiB more than before them; bound {} connections x 512 KiB + 1 MiB = {} KiB", i + 1, live_i / 1024, s.cap.max(1), live_bound / 1024)));
        }
    }
    st.evals = 1;
    st.fault_n("frames_that_belong_to_no_connection", nz.n as u64);
    st.probe_n("results_from_noise", results);
    if lives.len() >= 200 {
        let tenth = lives.len() / 10;
        let mut first: Vec<u64> = lives[..tenth].iter().map(|x| (*x).max(0) as u64).collect();
        let mut last: Vec<u64> = lives[lives.len() - tenth..].iter().map(|x| (*x).max(0) as u64).collect();
        let (mf, ml) = (median(&mut first) as i64, median(&mut last) as i64);
        let allowed = L_PER_CONN * s.cap.max(1) as i64;
        if ml - mf > allowed {
            return Err(Violation::new("retained-memory-grows", key, format!("retained memory grew from {} KiB (median over the first tenth of {} connection-less frames) to {} KiB (last tenth); allowed growth {} KiB", mf / 1024, lives.len(), ml / 1024, allowed / 1024)));
        }
    }
    st.sim_ns = clock::mono_ns();
    st.nontrivial = true;
    Ok(())
}

/// `n` connections (SYN with a timestamp option each) that are all tracked at once (capacity >= n), between
/// addresses of one structured family - the kind a hostile sender, a NAT pool or an address plan produces and a
/// table keyed by a folded or truncated address cannot tell apart.
#[derive(Clone, Debug, Serialize, Deserialize)]
pub struct Crowd {
    pub n: usize,
    /// 0: upper half XOR lower half constant; 1: upper + lower constant; 2: lower half constant; 3: upper half
    /// constant (ordinary); 4: only the two middle words vary; 5: IPv4, only the second octet pair varies
    pub family: u8,
    pub seed: u64,
    /// both directions? (SYN+ACK back from the same fixed server)
    pub with_replies: bool,
}

/// `n_values` distinct sets of header / hello values; each is used by `repeats` consecutive-ish connections
/// (so values recur, as they do in real traffic); every connection completes and is distinct (own client).
#[derive(Clone, Debug, Serialize, Deserialize)]
pub struct Churn {
    pub n_values: usize,
    pub repeats: usize,
    /// approximate size of the long header values (Accept-Language list, cookie) / hello padding
    pub value_len: usize,
    pub seed: u64,
    /// a value's repeat follows after this many other connections (0 = immediately)
    pub distance: usize,
    /// the client's first bytes ride on its SYN (TCP Fast Open) instead of following the handshake
    #[serde(default)]
    pub on_syn: bool,
}

pub struct C11;

struct Stream {
    bytes: Vec<u8>,
    from_client: bool,
    syn: bool,
}

fn stream_of(c: &LongConn) -> Stream {
    let mut r = Rng::new(c.payload_seed);
    let total = c.seg_size * c.n_segs;
    match c.traffic {
        Traffic::EndlessHttpHead => Stream { bytes: http1::endless_head(&mut r, total), from_client: true, syn: true },
        Traffic::RepeatedSynWithData => Stream { bytes: http1::endless_head(&mut r, total), from_client: true, syn: false },
        Traffic::EndlessFoldedHead => {
            let mut s = String::from("GET /folded HTTP/1.1\r\nHost: folded.example.test\r\nX-Long: a\r\n");
            while s.len() < total {
                s.push_str(if r.chance(1, 2) { " a\r\n" } else { "\tbcd\r\n" });
            }
            s.truncate(total.max(40));
            Stream { bytes: s.into_bytes(), from_client: true, syn: true }
        }
        Traffic::EndlessHttpResponseHead => {
            let mut s = String::from("HTTP/1.1 200 OK\r\nServer: endless\r\n");
            while s.len() < total {
                s.push_str("X-Filler: 0123456789abcdefghijklmnopqrstuvwxyz0123456789\r\n");
            }
            s.truncate(total.max(20));
            Stream { bytes: s.into_bytes(), from_client: false, syn: true }
        }
        Traffic::BinaryAfterSyn => Stream { bytes: r.bytes(total), from_client: true, syn: true },
        Traffic::TlsHugeDeclared => {
            // announced lengths: the maximum, and values between the protocol's limit and the maximum (just above a
            // power of two, just above the limit) - a record this long never completes within a few segments
            let len: usize = if r.chance(1, 2) {
                // a little more than the run delivers: the record is still growing during the last tenth of the run
                (total + 1000).clamp(16385 + 2048, 0xffff)
            } else {
                *r.pick(&[0xffffusize, 40000, 33000, 20000, 18433, 16385 + 2048])
            };
            let mut b = vec![0x16, 3, 1, (len >> 8) as u8, len as u8, 1, 0];
            b.extend_from_slice(&((len - 4) as u16).to_be_bytes());
            b.extend_from_slice(&r.bytes(total.saturating_sub(9)));
            Stream { bytes: b, from_client: true, syn: true }
        }
        Traffic::TlsAppDataAfterNonHello => {
            let mut b = tls::non_hello_handshake(&mut r);
            while b.len() < total {
                let n = r.urange(100, 1400);
                b.extend_from_slice(&tls::record(0x17, 0x0303, &r.bytes(n)));
            }
            b.truncate(total.max(10));
            Stream { bytes: b, from_client: true, syn: true }
        }
        Traffic::RandomNoSyn => Stream { bytes: r.bytes(total), from_client: true, syn: false },
        Traffic::TlsManyNonHelloRecords => {
            let mut b = vec![];
            while b.len() < total {
                // two streams in three consist only of records every TLS parser accepts (a parse error would
                // end the flow and hide any accumulation); the third mixes in opaque handshake bodies
                let only_valid = c.payload_seed % 3 != 0;
                match if only_valid { r.below(2) } else { r.below(3) } {
                    0 => b.extend_from_slice(&[0x16, 3, 3, 0, 4, 0, 0, 0, 0]),    // HelloRequest
                    1 => b.extend_from_slice(&[0x16, 3, 3, 0, 4, 14, 0, 0, 0]),   // ServerHelloDone
                    _ => {
                        let n = r.urange(4, 60);
                        let mut hs = vec![*r.pick(&[11u8, 12, 16, 4]), 0, 0, n as u8];
                        hs.extend_from_slice(&r.bytes(n));
                        b.extend_from_slice(&tls::record(0x16, 0x0303, &hs));
                    }
                }
            }
            b.truncate(total.max(9));
            Stream { bytes: b, from_client: true, syn: true }
        }
        Traffic::WrongKindThenEndless => {
            let from_client = r.chance(1, 2);
            let mut b = if from_client { http1::response(&mut r, 0).bytes } else { http1::request(&mut r, 0).bytes };
            let n = total.saturating_sub(b.len());
            b.extend_from_slice(&if r.chance(1, 2) { r.bytes(n) } else { vec![b'z'; n] });
            Stream { bytes: b, from_client, syn: true }
        }
        Traffic::Completing => {
            let mut b = if r.chance(1, 2) {
                http1::request(&mut r, 100).bytes
            } else {
                let spec = tls::random_spec(&mut r, 1200);
                tls::client_hello(&mut r, &spec)
            };
            let filler = r.bytes(total.saturating_sub(b.len()));
            b.extend_from_slice(&filler);
            Stream { bytes: b, from_client: true, syn: true }
        }
    }
}

fn median(v: &mut Vec<u64>) -> u64 {
    if v.is_empty() {
        return 0;
    }
    v.sort();
    v[v.len() / 2]
}

fn run_once(s: &Scn, st: &mut RunStats) -> Result<(), Violation> {
        if let Some(ch) = &s.churn {
            return run_churn(s, ch, st);
        }
        if let Some(cr) = &s.crowd {
            return run_crowd(s, cr, st);
        }
        if let Some(nz) = &s.noise {
            return run_noise(s, nz, st);
        }
        clock::arm(1_700_000_000_000);
        let cfg = SutCfg::new(s.kind, s.cap);
        let mut sut = Sut::new(&cfg).map_err(|e| Violation::new("harness-error", "", e))?;
        let streams: Vec<Stream> = s.conns.iter().map(stream_of).collect();
        let h = crate::gen::tcp::Host { profile: 0, ts_hz: 1000, ts_base: 77, ttl: 64 };
        // handshakes first
        for (c, sm) in s.conns.iter().zip(streams.iter()) {
            if sm.syn {
                let f = pkt::frame(&crate::gen::tcp::syn(&h, c.client, c.server, 1000, 0), Framing::Ethernet);
                let _ = sut.deliver(&f);
                let f = pkt::frame(&crate::gen::tcp::syn_ack(&h, c.client, c.server, 5000, 1000, 0, 0), Framing::Ethernet);
                let _ = sut.deliver(&f);
                st.packets += 2;
            }
        }
        // the harness's own bookkeeping is allocated before the baseline is taken, so that it never
        // shows up as memory "retained by the analyzer" (a thorough run tripped over a Vec doubling at
        // 65536 samples)
        let total_segs: usize = s.conns.iter().map(|c| c.n_segs).sum();
        let mut allocs: Vec<Vec<u64>> = s.conns.iter().map(|c| Vec::with_capacity(c.n_segs + 1)).collect();
        let mut lives: Vec<i64> = Vec::with_capacity(total_segs + 1);
        let base = alloc::snap();
        let live0 = base.live();
        let n_conn = s.conns.len() as i64;
        let live_bound = n_conn.min(s.cap.max(1) as i64).max(1) * L_PER_CONN + SLACK;
        let mut next = vec![0usize; s.conns.len()];
        let mut fingerprinted = vec![false; s.conns.len()];
        let mut delivered = 0usize;
        let mut live_max: i64 = 0;
        let mut alloc_max: u64 = 0;
        let mut cpu_max: u64 = 0;
        st.evals = 0;
        loop {
            let mut progressed = false;
            for ci in 0..s.conns.len() {
                let c = &s.conns[ci];
                let k = next[ci];
                if k >= c.n_segs {
                    continue;
                }
                let a = (k * c.seg_size).min(streams[ci].bytes.len());
                let b = ((k + 1) * c.seg_size).min(streams[ci].bytes.len());
                next[ci] += 1;
                if a >= b {
                    continue;
                }
                progressed = true;
                let sm = &streams[ci];
                let (from, to, seq, ack) = if sm.from_client { (c.client, c.server, 1001u32.wrapping_add(a as u32), 5001) } else { (c.server, c.client, 5001u32.wrapping_add(a as u32), 1001) };
                let seg = if c.traffic == Traffic::RepeatedSynWithData && k + 1 < c.n_segs {
                    // the same SYN again: sequence number 1000, the stream's first bytes as payload
                    let mut syn = crate::gen::tcp::syn(&h, c.client, c.server, 1000, 0);
                    syn.payload = sm.bytes[..c.seg_size.min(sm.bytes.len())].to_vec();
                    syn
                } else if c.traffic == Traffic::RepeatedSynWithData {
                    let n = c.seg_size.min(sm.bytes.len());
                    crate::gen::tcp::data(&h, from, to, 1001u32.wrapping_add(n as u32), ack, sm.bytes[n..(2 * n).min(sm.bytes.len())].to_vec(), clock::mono_ns(), 1, pkt::ACK)
                } else {
                    crate::gen::tcp::data(&h, from, to, seq, ack, sm.bytes[a..b].to_vec(), clock::mono_ns(), 1, pkt::ACK)
                };
                let frame = pkt::frame(&seg, Framing::Ethernet);
                clock::advance_ns(s.gap_ns);
                delivered += 1;
                if s.idle_every > 0 && delivered % s.idle_every == 0 {
                    clock::advance_ns(s.idle_ns);
                    st.fault("idle_beyond_ttl");
                }
                let before = alloc::snap();
                let cpu0 = thread_cpu_ns();
                let out = sut.deliver(&frame);
                let cpu_i = thread_cpu_ns() - cpu0;
                let after = alloc::snap();
                cpu_max = cpu_max.max(cpu_i);
                let has_result = out.obs.iter().any(|o| matches!(o.kind.as_str(), "http_request" | "http_response" | "tls"));
                drop(out);
                let after_drop = alloc::snap();
                st.packets += 1;
                st.evals += 1;
                if has_result {
                    fingerprinted[ci] = true;
                }
                let alloc_i = after.allocated - before.allocated;
                let live_i = after_drop.live() - live0;
                allocs[ci].push(alloc_i);
                lives.push(live_i);
                live_max = live_max.max(live_i);
                alloc_max = alloc_max.max(alloc_i);
                if k % 64 == 0 {
                    st.ev_u64(alloc_i / 4096);
                }
                let key = format!("{}:{:?}", s.kind.name(), c.traffic);
                if live_i > live_bound {
                    return Err(Violation::new("retained-memory", key, format!("after segment {} of connection {} ({:?}, {} B segments): analyzer retains {} KiB above its baseline; bound {} connections x 512 KiB + 1 MiB = {} KiB", k, ci, c.traffic, c.seg_size, live_i / 1024, n_conn.min(s.cap.max(1) as i64), live_bound / 1024)));
                }
                // time: handling one packet against at most 64 KiB of buffered stream takes a fraction of a millisecond;
                // a cost that multiplies what the connection has sent by how many lines it has sent reaches hundreds.
                // The bound leaves two orders of magnitude to the healthy figure.
                if cpu_i > T_PER_PACKET_NS {
                    return Err(Violation::new("per-packet-time", key, format!("segment {} of connection {} ({:?}, {} B payload): handling it took {} ms of CPU; bound {} ms", k, ci, c.traffic, b - a, cpu_i / 1_000_000, T_PER_PACKET_NS / 1_000_000)));
                }
                if alloc_i > A_CONST + B_PER_BYTE * frame.len() as u64 {
                    return Err(Violation::new("per-packet-work", key, format!("segment {} of connection {} ({:?}, {} B payload): handling it allocated {} KiB; bound 4 MiB + 64 x {} B = {} KiB", k, ci, c.traffic, b - a, alloc_i / 1024, frame.len(), (A_CONST + B_PER_BYTE * frame.len() as u64) / 1024)));
                }
            }
            if !progressed {
                break;
            }
        }
        // retained memory must plateau: what the analyzer holds during the last tenth of the run may not exceed
        // what it held during the first tenth by more than the per-connection limit times the number of
        // connections (a buffer that grows with every segment crosses this long before the absolute bound)
        if lives.len() >= 200 {
            let tenth = lives.len() / 10;
            let mut first: Vec<u64> = lives[..tenth].iter().map(|x| (*x).max(0) as u64).collect();
            let mut last: Vec<u64> = lives[lives.len() - tenth..].iter().map(|x| (*x).max(0) as u64).collect();
            let (mf, ml) = (median(&mut first) as i64, median(&mut last) as i64);
            let allowed = n_conn.min(s.cap.max(1) as i64).max(1) * L_PER_CONN;
            if ml - mf > allowed {
                let worst = s.conns.iter().map(|c| format!("{:?}", c.traffic)).collect::<Vec<_>>().join(",");
                return Err(Violation::new("retained-memory-grows", format!("{}:{}", s.kind.name(), worst.split(',').next().unwrap_or("")), format!("retained memory grew from {} KiB (median of the first tenth of the run) to {} KiB (last tenth) over {} delivered segments; allowed growth {} KiB; traffic: {}", mf / 1024, ml / 1024, lives.len(), allowed / 1024, worst)));
            }
        }
        // flatness per connection
        let mut long_nofp = false;
        for (ci, v) in allocs.iter().enumerate() {
            if v.len() >= 100 {
                let tenth = v.len() / 10;
                let mut first: Vec<u64> = v[..tenth].to_vec();
                let mut last: Vec<u64> = v[v.len() - tenth..].to_vec();
                let (mf, ml) = (median(&mut first), median(&mut last));
                // growth up to the plateau of a full (capped) buffer is bounded work; beyond it, it is history-dependent.
                // The TLS analyzer appends to one buffer per flow and parses a record once: its per-packet allocation
                // is amortised to next to nothing, so the slack is 16 KiB there instead of the 2 MiB the HTTP parsers'
                // temporaries need
                let slack = if s.kind == Kind::Tls { 16 * 1024 } else { A_CONST / 2 };
                if ml > 2 * mf + slack {
                    return Err(Violation::new("work-grows-with-history", format!("{}:{:?}", s.kind.name(), s.conns[ci].traffic), format!("connection {} ({:?}): median allocation per packet grew from {} B (first tenth) to {} B (last tenth) over {} segments", ci, s.conns[ci].traffic, mf, ml, v.len())));
                }
            }
            if v.len() >= 500 && !fingerprinted[ci] && s.conns[ci].traffic != Traffic::Completing {
                long_nofp = true;
            }
        }
        st.sim_ns = clock::mono_ns();
        st.nontrivial = long_nofp;
        st.probe_n("max_live_above_baseline_KiB", (live_max.max(0) / 1024) as u64);
        st.probe_n("max_alloc_per_packet_KiB", alloc_max / 1024);
        st.probe_n("sum_of_max_cpu_per_packet_us", cpu_max / 1000);
        if fingerprinted.iter().any(|x| *x) {
            st.probe("contrast_connection_fingerprinted");
        }
        Ok(())
}

impl Prop for C11 {
    type Scn = Scn;
    const ID: &'static str = "C11";
    const ENGINE: &'static str = crate::NETSIM_ENGINE;

    fn rule() -> &'static str {
        "one evaluation = one delivered segment of a long never-fingerprinting (or contrast) connection, with the counting allocator sampled around it; bounds: live - baseline <= connections x 512 KiB + 1 MiB, live(last tenth) - live(first tenth) <= connections x 512 KiB, allocated per packet <= 4 MiB + 64 x packet length, and the median per-packet allocation of a connection's last tenth <= 2 x its first tenth + 2 MiB; non-trivial = the run delivers >= 500 segments on at least one connection that never yields a fingerprint; distinct = distinct event-log hash"
    }

    fn runs(tier: Tier) -> u64 {
        tier.pick(320, 1_500)
    }

    fn run_wall_limit_s() -> u64 {
        120
    }

    fn logging_allowed() -> bool {
        false
    }

    fn generate(r: &mut Rng, tier: Tier, _idx: u64) -> Scn {
        let kind = *r.pick(&Kind::ALL);
        let cap = *r.pick(&[1usize, 4, 64, 1000]);
        let m = match r.below(4) {
            0 => 1,
            1 => r.urange(2, 4),
            _ => r.urange(1, (4 * cap).min(12)),
        };
        let mut conns = vec![];
        for i in 0..m {
            let traffic = match kind {
                Kind::Tls => *r.pick(&[Traffic::RepeatedSynWithData, Traffic::TlsHugeDeclared, Traffic::TlsHugeDeclared, Traffic::TlsHugeDeclared, Traffic::TlsManyNonHelloRecords, Traffic::TlsManyNonHelloRecords, Traffic::TlsAppDataAfterNonHello, Traffic::TlsAppDataAfterNonHello, Traffic::BinaryAfterSyn, Traffic::RandomNoSyn, Traffic::Completing]),
                Kind::Tcp => *r.pick(&[Traffic::BinaryAfterSyn, Traffic::EndlessHttpHead, Traffic::RandomNoSyn, Traffic::Completing, Traffic::RepeatedSynWithData]),
                _ => *r.pick(&[Traffic::EndlessHttpHead, Traffic::EndlessFoldedHead, Traffic::RepeatedSynWithData, Traffic::TlsManyNonHelloRecords, Traffic::WrongKindThenEndless, Traffic::WrongKindThenEndless, Traffic::EndlessHttpResponseHead, Traffic::BinaryAfterSyn, Traffic::TlsHugeDeclared, Traffic::TlsAppDataAfterNonHello, Traffic::RandomNoSyn, Traffic::Completing]),
            };
            let n_segs = match tier {
                Tier::Quick => *r.pick(&[200usize, 600, 1000, 2000]),
                Tier::Thorough => *r.pick(&[1000usize, 5000, 20_000, 100_000]),
            } / if m > 4 { 4 } else { 1 };
            conns.push(LongConn {
                traffic,
                client: Endpoint::v4(10, 3, (i / 200) as u8, (i % 200) as u8 + 1, 40000 + i as u16),
                server: Endpoint::v4(10, 4, 0, 1, *r.pick(&[80u16, 443, 8080])),
                seg_size: *r.pick(&[1usize, 64, 536, 1200, 1460, 1460]),
                n_segs: n_segs.max(50),
                payload_seed: r.next_u64(),
            });
        }
        let scn = Scn { kind, cap, conns, gap_ns: *r.pick(&[1_000u64, 100_000, 5_000_000]), idle_every: *r.pick(&[0usize, 0, 500, 2000]), idle_ns: *r.pick(&[21_000_000_000u64, 61_000_000_000, 601_000_000_000]), churn: None, crowd: None, noise: None };
        // one scenario in eight is a crowd: every connection tracked at once, addresses from a structured family
        if r.chance(1, 8) {
            let n = match tier {
                Tier::Quick => r.urange(6000, 12000),
                Tier::Thorough => r.urange(10_000, 40_000),
            };
            return Scn { kind: *r.pick(&[Kind::Tcp, Kind::Tcp, Kind::Unified, Kind::Http, Kind::Tls]), cap: n + 64, conns: vec![], crowd: Some(Crowd { n, family: *r.pick(&[0u8, 0, 1, 1, 2, 3, 4, 5]), seed: r.next_u64(), with_replies: r.chance(1, 2) }), ..scn };
        }
        // one scenario in sixteen is noise: frames that belong to no connection, all different, on a small analyzer
        if r.chance(1, 16) {
            let n = match tier {
                Tier::Quick => r.urange(20_000, 50_000),
                Tier::Thorough => r.urange(40_000, 200_000),
            };
            let kinds = if r.chance(1, 2) { 0x3f } else { 1 << r.below(6) as u8 };
            return Scn { cap: *r.pick(&[1usize, 1, 2, 4]), conns: vec![], noise: Some(Noise { n, seed: r.next_u64(), kinds }), ..scn };
        }
        // one scenario in twelve is a population scenario
        if r.chance(1, 12) {
            let n_values = match tier {
                Tier::Quick => r.urange(3000, 6000),
                Tier::Thorough => r.urange(6000, 40_000),
            };
            return Scn { cap: *r.pick(&[1usize, 2, 4]), conns: vec![], churn: Some(Churn { n_values, repeats: r.urange(1, 3), value_len: *r.pick(&[200usize, 800, 1500]), seed: r.next_u64(), distance: *r.pick(&[0usize, 1, 7, 100]), on_syn: r.chance(1, 3) }), ..scn };
        }
        scn
    }

    fn systematic(_tier: Tier) -> Vec<Scn> {
        // every (analyzer, traffic kind) pair once with small and once with large segments, one connection, run
        // lengths of 27..60 KB in which a buffered record or head is still growing at the end: a fixed floor under
        // what the seeded scenarios happen to draw
        const ALL: [Traffic; 12] = [
            Traffic::EndlessHttpHead,
            Traffic::EndlessHttpResponseHead,
            Traffic::BinaryAfterSyn,
            Traffic::TlsHugeDeclared,
            Traffic::TlsAppDataAfterNonHello,
            Traffic::TlsManyNonHelloRecords,
            Traffic::RandomNoSyn,
            Traffic::WrongKindThenEndless,
            Traffic::Completing,
            Traffic::EndlessFoldedHead,
            Traffic::RepeatedSynWithData,
            Traffic::TlsHugeDeclared,
        ];
        let mut out = vec![];
        for kind in Kind::ALL {
            for (ti, traffic) in ALL.iter().enumerate() {
                for (seg_size, n_segs) in [(64usize, 600usize), (536, 50), (1200, 50), (64, 940)] {
                    if (ti == 11) != (seg_size == 64 && n_segs == 940) && ti == 11 {
                        continue; // the twelfth entry is the extra TLS run length only
                    }
                    if ti != 11 && ti != 3 && n_segs == 940 {
                        continue;
                    }
                    out.push(Scn {
                        kind,
                        cap: 4,
                        conns: vec![LongConn { traffic: *traffic, client: Endpoint::v4(10, 3, 9, 1, 40000 + ti as u16), server: Endpoint::v4(10, 4, 0, 1, 443), seg_size, n_segs, payload_seed: 0xC11_0000 + (ti * 7 + seg_size) as u64 }],
                        gap_ns: 100_000,
                        idle_every: 0,
                        idle_ns: 0,
                        churn: None,
                        crowd: None,
                        noise: None,
                    });
                }
            }
        }
        out
    }

    fn timing_classes() -> &'static [&'static str] {
        &["per-packet-time", "work-grows-with-tracked-connections"]
    }

    fn run(s: &Scn, st: &mut RunStats) -> Result<(), Violation> {
        // a verdict on measured CPU time is confirmed by running the scenario twice more: a cost that is in the code
        // is there every time, a hiccup of the machine (page faults of a cold process, time stolen from the VM) is not
        let r = run_once(s, st);
        if let Err(v) = &r {
            if Self::timing_classes().contains(&v.class.as_str()) {
                for _ in 0..2 {
                    let mut st2 = RunStats::default();
                    match run_once(s, &mut st2) {
                        Err(v2) if v2.class == v.class => {}
                        other => {
                            st.probe("timing_verdict_not_confirmed_by_a_second_run");
                            return other;
                        }
                    }
                }
            }
        }
        r
    }

    fn shrink(s: &Scn) -> Vec<Scn> {
        let mut out = vec![];
        if s.crowd.is_some() {
            // not shrunk: the verdict rests on a time ratio, and a smaller crowd only moves it towards the margin
            return out;
        }
        if let Some(nz) = &s.noise {
            if nz.n > 8000 {
                let mut x = s.clone();
                x.noise = Some(Noise { n: nz.n * 3 / 4, ..nz.clone() });
                out.push(x);
            }
            if nz.kinds.count_ones() > 1 {
                for k in 0..6u8 {
                    if nz.kinds & (1 << k) != 0 {
                        let mut x = s.clone();
                        x.noise = Some(Noise { kinds: 1 << k, ..nz.clone() });
                        out.push(x);
                    }
                }
            }
            return out;
        }
        if let Some(ch) = &s.churn {
            if ch.n_values > 700 {
                let mut x = s.clone();
                x.churn = Some(Churn { n_values: ch.n_values * 3 / 4, ..ch.clone() });
                out.push(x);
            }
            if ch.repeats > 1 {
                let mut x = s.clone();
                x.churn = Some(Churn { repeats: ch.repeats - 1, ..ch.clone() });
                out.push(x);
            }
            if ch.distance > 0 {
                let mut x = s.clone();
                x.churn = Some(Churn { distance: 0, ..ch.clone() });
                out.push(x);
            }
            return out;
        }
        if s.conns.len() > 1 {
            for i in 0..s.conns.len() {
                let mut x = s.clone();
                x.conns = vec![s.conns[i].clone()];
                out.push(x);
            }
        }
        for (i, c) in s.conns.iter().enumerate() {
            if c.n_segs > 60 {
                let mut x = s.clone();
                x.conns[i].n_segs = c.n_segs / 2;
                out.push(x);
            }
        }
        if s.idle_every != 0 {
            let mut x = s.clone();
            x.idle_every = 0;
            out.push(x);
        }
        out
    }
}

/// The bytes one connection of the population carries, derived from its value index only (repeats are identical).
fn churn_streams(kind: Kind, ch: &Churn, v: usize) -> (Vec<u8>, Vec<u8>) {
    let mut r = Rng::new(ch.seed ^ crate::rng::mix64(v as u64 + 1));
    let tok = |r: &mut Rng, n: usize| -> String {
        const A: &[u8] = b"abcdefghijklmnopqrstuvwxyz0123456789";
        (0..n).map(|_| A[r.usize_below(A.len())] as char).collect()
    };
    if kind == Kind::Tls {
        let mut spec = tls::random_spec(&mut r, 4000);
        spec.sni = Some(format!("{}.{}.example.test", tok(&mut r, 12), v));
        spec.target_len = ch.value_len.max(300);
        spec.coalesced_before = 0;
        return (tls::client_hello(&mut r, &spec), vec![]);
    }
    const TAGS: [&str; 20] = ["en", "en-US", "en-GB", "de", "de-DE", "fr", "fr-FR", "es", "es-ES", "it", "pt", "pt-BR", "nl", "sv", "pl", "ru", "ja", "ko", "zh-CN", "tr"];
    let mut langs = vec![];
    let mut len = 0;
    while len < ch.value_len {
        let e = format!("{};q=0.{}", r.pick(&TAGS), r.below(1000));
        len += e.len() + 1;
        langs.push(e);
    }
    let req = format!(
        "GET /{} HTTP/1.1\r\nHost: {}.example.test\r\nUser-Agent: Mozilla/5.0 (X11; Linux x86_64; rv:{}.0) Gecko/20100101 Firefox/{}.0\r\nAccept: text/html,*/*;q=0.8\r\nAccept-Language: {}\r\nCookie: sid={}\r\nReferer: http://{}.example.test/{}\r\n\r\n",
        tok(&mut r, 16),
        tok(&mut r, 10),
        v,
        v,
        langs.join(","),
        tok(&mut r, ch.value_len / 2 + 8),
        tok(&mut r, 8),
        tok(&mut r, 12)
    );
    let resp = format!("HTTP/1.1 200 OK\r\nServer: nginx/1.{}.{}\r\nContent-Type: text/html; charset={}\r\nX-Request-Id: {}\r\nContent-Length: 0\r\n\r\n", v % 97, v, tok(&mut r, 6), tok(&mut r, 24));
    (req.into_bytes(), resp.into_bytes())
}

/// Population scenario: `n_values x repeats` short complete connections in succession on one analyzer of
/// small capacity. At most one connection is open at any time, so whatever the analyzer retains beyond one
/// connection's worth is history: it must stay under the bound and must not grow with the number of
/// connections (or distinct values) seen.
fn run_churn(s: &Scn, ch: &Churn, st: &mut RunStats) -> Result<(), Violation> {
    clock::arm(1_700_000_000_000);
    let cfg = SutCfg::new(s.kind, s.cap);
    let mut sut = Sut::new(&cfg).map_err(|e| Violation::new("harness-error", "", e))?;
    // order of value indices: value v is used again `distance` connections after its previous use
    let mut order: Vec<usize> = Vec::with_capacity(ch.n_values * ch.repeats);
    {
        let block = ch.distance + 1;
        let mut v0 = 0;
        while v0 < ch.n_values {
            let hi = (v0 + block).min(ch.n_values);
            for _ in 0..ch.repeats {
                order.extend(v0..hi);
            }
            v0 = hi;
        }
    }
    let total = order.len();
    let mut lives: Vec<i64> = Vec::with_capacity(total + 1);
    let mut allocs: Vec<u64> = Vec::with_capacity(total + 1);
    // warm the analyzer with one connection before the baseline (lazily created tables)
    let key = format!("{}:population", s.kind.name());
    let live_bound = L_PER_CONN * s.cap.max(1) as i64 + SLACK;
    let mut base_live: Option<i64> = None;
    let mut results = 0u64;
    st.evals = 0;
    for (ci, v) in order.iter().enumerate() {
        let (req, resp) = churn_streams(s.kind, ch, *v);
        let h = crate::gen::tcp::Host { profile: ci % 4, ts_hz: 1000, ts_base: 77 + ci as u32, ttl: 64 };
        let client = Endpoint::v4(10, 8 + (ci >> 16) as u8, (ci >> 8) as u8, ci as u8, 1024 + (ci % 60000) as u16);
        let server = Endpoint::v4(10, 4, 0, 1, if s.kind == Kind::Tls { 443 } else { 80 });
        let mut frames = if ch.on_syn {
            let mut syn = crate::gen::tcp::syn(&h, client, server, 1000, clock::mono_ns());
            syn.payload = req.clone();
            vec![syn, crate::gen::tcp::syn_ack(&h, client, server, 5000, 1000, clock::mono_ns(), 1)]
        } else {
            vec![
                crate::gen::tcp::syn(&h, client, server, 1000, clock::mono_ns()),
                crate::gen::tcp::syn_ack(&h, client, server, 5000, 1000, clock::mono_ns(), 1),
                crate::gen::tcp::data(&h, client, server, 1001, 5001, req.clone(), clock::mono_ns(), 1, pkt::ACK | pkt::PSH),
            ]
        };
        if !resp.is_empty() {
            frames.push(crate::gen::tcp::data(&h, server, client, 5001, 1001u32.wrapping_add(req.len() as u32), resp, clock::mono_ns(), 1, pkt::ACK | pkt::PSH));
        }
        let mut alloc_conn = 0u64;
        for seg in &frames {
            let frame = pkt::frame(seg, Framing::Ethernet);
            clock::advance_ns(s.gap_ns);
            let before = alloc::snap();
            let out = sut.deliver(&frame);
            let after = alloc::snap();
            results += out.obs.iter().filter(|o| matches!(o.kind.as_str(), "http_request" | "http_response" | "tls" | "syn")).count() as u64;
            drop(out);
            alloc_conn += after.allocated - before.allocated;
            st.packets += 1;
            let alloc_i = after.allocated - before.allocated;
            if alloc_i > A_CONST + B_PER_BYTE * frame.len() as u64 {
                return Err(Violation::new("per-packet-work", key, format!("connection {} of the population: handling one {} B frame allocated {} KiB", ci, frame.len(), alloc_i / 1024)));
            }
        }
        st.evals += 1;
        let live_now = alloc::snap().live();
        let b = *base_live.get_or_insert(live_now);
        let live_i = live_now - b;
        lives.push(live_i);
        allocs.push(alloc_conn);
        if ci % 256 == 0 {
            st.ev_u64(alloc_conn / 4096);
        }
        if live_i > live_bound {
            return Err(Violation::new("retained-memory", key, format!("after {} short complete connections ({} distinct value sets so far, one open at a time): analyzer retains {} KiB above what it held after the first one; bound {} connections x 512 KiB + 1 MiB = {} KiB", ci + 1, order[..=ci].iter().max().map(|m| m + 1).unwrap_or(0), live_i / 1024, s.cap.max(1), live_bound / 1024)));
        }
    }
    st.fault_n("connection_churn", total as u64);
    if lives.len() >= 200 {
        let tenth = lives.len() / 10;
        let mut first: Vec<u64> = lives[..tenth].iter().map(|x| (*x).max(0) as u64).collect();
        let mut last: Vec<u64> = lives[lives.len() - tenth..].iter().map(|x| (*x).max(0) as u64).collect();
        let (mf, ml) = (median(&mut first) as i64, median(&mut last) as i64);
        let allowed = L_PER_CONN * s.cap.max(1) as i64;
        if ml - mf > allowed {
            return Err(Violation::new("retained-memory-grows", key.clone(), format!("retained memory grew from {} KiB (median over the first tenth of {} connections) to {} KiB (last tenth); allowed growth {} KiB", mf / 1024, lives.len(), ml / 1024, allowed / 1024)));
        }
        let mut fa: Vec<u64> = allocs[..tenth].to_vec();
        let mut la: Vec<u64> = allocs[allocs.len() - tenth..].to_vec();
        let (mf, ml) = (median(&mut fa), median(&mut la));
        if ml > 2 * mf + A_CONST / 2 {
            return Err(Violation::new("work-grows-with-history", key, format!("median allocation per connection grew from {} B (first tenth) to {} B (last tenth) over {} connections", mf, ml, allocs.len())));
        }
    }
    st.sim_ns = clock::mono_ns();
    st.nontrivial = results as usize >= total / 2;
    st.probe_n("population_connections", total as u64);
    Ok(())
}

fn thread_cpu_ns() -> u64 {
    let mut ts = libc::timespec { tv_sec: 0, tv_nsec: 0 };
    // SAFETY: plain syscall filling a stack struct
    unsafe {
        libc::clock_gettime(libc::CLOCK_THREAD_CPUTIME_ID, &mut ts);
    }
    ts.tv_sec as u64 * 1_000_000_000 + ts.tv_nsec as u64
}

fn crowd_client(cr: &Crowd, k: usize, r: &mut Rng) -> Endpoint {
    let x = r.next_u64() | 1;
    let c: u64 = 0x2001_0db8_5a5a_0000 ^ cr.seed.rotate_left(17);
    let port = 40_000;
    let v6 = |hi: u64, lo: u64| Endpoint { ip: std::net::IpAddr::V6(std::net::Ipv6Addr::from(((hi as u128) << 64) | lo as u128)), port };
    match cr.family {
        0 => v6(x, x ^ c),
        1 => v6(x, c.wrapping_sub(x)),
        2 => v6(x, c),
        3 => v6(0x2001_0db8_0000_0000 | (k as u64 >> 16), x),
        4 => v6(0x2001_0db8_0000_0000 | (x & 0xffff_ffff), (x & 0xffff_ffff_0000_0000) | 1),
        _ => Endpoint::v4(10, (k >> 8) as u8, k as u8, 7, port),
    }
}

/// Crowd scenario: the time one packet costs must not grow with the number of connections already tracked.
/// Time is thread CPU time, compared between the first and the last thousand packets with a very wide margin
/// (a table that degenerates into one chain costs dozens to hundreds of times more at the end than at the start; a healthy one costs the same, so the test is: last block > 8 x max(first block, 1 ms)).
fn run_crowd(s: &Scn, cr: &Crowd, st: &mut RunStats) -> Result<(), Violation> {
    clock::arm(1_700_000_000_000);
    let cfg = SutCfg::new(s.kind, s.cap);
    let mut sut = Sut::new(&cfg).map_err(|e| Violation::new("harness-error", "", e))?;
    let mut r = Rng::new(cr.seed);
    let h = crate::gen::tcp::Host { profile: 0, ts_hz: 1000, ts_base: 99, ttl: 64 };
    let server = match cr.family {
        5 => Endpoint::v4(10, 200, 0, 1, 443),
        _ => Endpoint { ip: std::net::IpAddr::V6(std::net::Ipv6Addr::from(0x2001_0db8_ffff_0000_0000_0000_0000_0001u128)), port: 443 },
    };
    // frames are built first so that only the analyzer is timed
    let mut frames: Vec<Vec<u8>> = Vec::with_capacity(cr.n * 2);
    for k in 0..cr.n {
        let c = crowd_client(cr, k, &mut r);
        frames.push(pkt::frame(&crate::gen::tcp::syn(&h, c, server, 1000 + k as u32, k as u64 * 1_000_000), Framing::Ethernet));
        if cr.with_replies {
            frames.push(pkt::frame(&crate::gen::tcp::syn_ack(&h, c, server, 5000, 1000 + k as u32, k as u64 * 1_000_000, 1), Framing::Ethernet));
        }
    }
    let block = 250.min(frames.len() / 4).max(1);
    let mut first_ns = 0u64;
    let mut last_ns = 0u64;
    let total = frames.len();
    let mut t0 = thread_cpu_ns();
    for (i, f) in frames.iter().enumerate() {
        clock::advance_ns(1_000);
        let out = sut.deliver(f);
        drop(out);
        st.packets += 1;
        if i + 1 == block {
            let t = thread_cpu_ns();
            first_ns = t - t0;
        }
        if i + 1 == total - block {
            t0 = thread_cpu_ns();
        }
    }
    last_ns = last_ns.max(thread_cpu_ns() - t0);
    st.evals = total as u64;
    st.fault_n("crowd_of_simultaneously_tracked_connections", cr.n as u64);
    st.ev_u64(cr.family as u64);
    st.ev_u64(cr.n as u64);
    st.probe_n("crowd_last_block_over_first_block_percent", last_ns.saturating_mul(100) / first_ns.max(1));
    st.nontrivial = true;
    st.sim_ns = clock::mono_ns();
    // a generous floor under the first block (timer granularity, cold caches) and a factor no healthy table comes near
    let floor = first_ns.max(1_000_000);
    if last_ns > 8 * floor {
        return Err(Violation::new("work-grows-with-tracked-connections", format!("{}:family{}", s.kind.name(), cr.family), format!("{} connections tracked at once (address family {}): the first {} packets took {} us of CPU, the last {} took {} us", cr.n, cr.family, block, first_ns / 1000, block, last_ns / 1000)));
    }
    Ok(())
}
