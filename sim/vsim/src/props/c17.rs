//! C17 — Akamai HTTP/2 fingerprint: published format, and chunk-independence of the incremental
//! extractor.
//!
//! A simulated client emits the start of an HTTP/2 connection (frames chosen by seed, structure
//! kept); the tap hands the byte stream to `Http2FingerprintExtractor::add_bytes` in arbitrary
//! chunks.  Oracle (a) is over the recorded history of return values; oracle (b) compares the
//! one-shot extractor with a reference model computed from the generator's structure.

use crate::gen::http2::{self, Hostile, Opts, Structure};
use crate::rng::Rng;
use crate::runner::{Prop, RunStats, Tier, Violation};
use serde::{Deserialize, Serialize};

#[derive(Clone, Debug, Serialize, Deserialize)]
pub struct Scn {
    #[serde(with = "crate::pkt::hexser")]
    pub stream: Vec<u8>,
    pub structure: Structure,
    /// each entry: chunk boundaries (strictly increasing offsets in 1..len)
    pub chunkings: Vec<Vec<usize>>,
    /// feed a second, valid connection after reset() and expect the same as on a fresh extractor
    pub reuse_after_reset: bool,
}

pub struct C17;

fn chunks(len: usize, cuts: &[usize]) -> Vec<(usize, usize)> {
    let mut v = vec![];
    let mut a = 0;
    for &c in cuts {
        if c > a && c < len {
            v.push((a, c));
            a = c;
        }
    }
    v.push((a, len));
    v
}

fn fp_text(f: &huginn_net_http::AkamaiFingerprint) -> String {
    format!("{} #{}", f.fingerprint, f.hash)
}

fn check_incremental(scn: &Scn, cuts: &[usize], st: &mut RunStats) -> Result<(), Violation> {
    let s = &scn.stream;
    let cs = chunks(s.len(), cuts);
    let mut ex = huginn_net_http::Http2FingerprintExtractor::new();
    let mut reports: Vec<(usize, String)> = vec![];
    for (k, (a, b)) in cs.iter().enumerate() {
        st.packets += 1;
        match ex.add_bytes(&s[*a..*b]) {
            Ok(Some(f)) => {
                let t = fp_text(&f);
                st.ev(&t);
                reports.push((k, t));
            }
            Ok(None) => st.ev("none"),
            Err(_) => st.ev("err"),
        }
        // get_fingerprint must agree with what was reported so far
        let g = ex.get_fingerprint().map(fp_text);
        if g != reports.first().map(|r| r.1.clone()) {
            return Err(Violation::new("get-fingerprint-drift", "extractor", format!("after chunk {} get_fingerprint() = {:?} but reported so far = {:?}", k, g, reports.first())));
        }
    }
    if reports.len() > 1 {
        return Err(Violation::new("duplicate-report", "extractor", format!("{} fingerprints reported for one connection (chunks {:?})", reports.len(), reports.iter().map(|r| r.0).collect::<Vec<_>>())));
    }
    let settings = scn.structure.first_settings.clone();
    let kc = cs.iter().position(|(_, b)| *b >= scn.structure.first_settings_end);
    match (settings, kc) {
        (Some(sv), Some(kc)) if !sv.is_empty() => {
            st.probe("settings_completed");
            if cs.len() > 1 {
                st.nontrivial = true;
            }
            let prefix_end = cs[kc].1;
            let oneshot = huginn_net_http::extract_akamai_fingerprint_from_bytes(&s[..prefix_end]).map(|f| fp_text(&f));
            let Some(expect) = oneshot else {
                // the one-shot extractor itself says nothing for this prefix: nothing to compare (oracle b covers format)
                st.probe("oneshot_none_on_prefix");
                return Ok(());
            };
            let Some((k, got)) = reports.first() else {
                return Err(Violation::new("incremental-missing", "extractor", format!("no fingerprint although the first SETTINGS frame completed in chunk {} of {} (chunk ends {:?})", kc, cs.len(), ends(&cs))));
            };
            if *k != kc {
                return Err(Violation::new(if *k < kc { "incremental-early" } else { "incremental-late" }, "extractor", format!("fingerprint reported in chunk {} but the first SETTINGS frame completes in chunk {} (chunk ends {:?}, settings end {})", k, kc, ends(&cs), scn.structure.first_settings_end)));
            }
            if *got != expect {
                let frames_before = scn.structure.first_settings_end > if scn.structure.has_preface { http2::PREFACE.len() } else { 0 } + 9 + 6 * scn.structure.first_settings.as_ref().map(|v| v.len()).unwrap_or(0);
                let key = if frames_before && kc > 0 { "frames-consumed-before-settings" } else { "other" };
                return Err(Violation::new("incremental-mismatch", key, format!("chunked result differs from the one-shot result on the bytes received so far\n  one-shot on prefix[..{}]: {}\n  incremental:            {}\n  chunk ends {:?}", prefix_end, expect, got, ends(&cs))));
            }
            Ok(())
        }
        _ => {
            // no (non-empty) first SETTINGS frame completes: whatever is reported must still equal the one-shot result of the bytes received so far
            if let Some((k, got)) = reports.first() {
                let prefix_end = cs[*k].1;
                let oneshot = huginn_net_http::extract_akamai_fingerprint_from_bytes(&s[..prefix_end]).map(|f| fp_text(&f));
                if oneshot.as_ref() != Some(got) {
                    return Err(Violation::new("incremental-mismatch", "no-first-settings", format!("reported {} in chunk {} but one-shot on the same prefix gives {:?}", got, k, oneshot)));
                }
            }
            Ok(())
        }
    }
}

fn ends(cs: &[(usize, usize)]) -> Vec<usize> {
    cs.iter().take(20).map(|c| c.1).collect()
}

fn check_format(scn: &Scn, st: &mut RunStats) -> Result<(), Violation> {
    let Some((fp, hash)) = http2::akamai_reference(&scn.structure) else { return Ok(()) };
    st.probe("format_reference_checked");
    let got = huginn_net_http::extract_akamai_fingerprint_from_bytes(&scn.stream);
    let Some(got) = got else {
        return Err(Violation::new("format", "missing", format!("one-shot extractor reports nothing; reference model says {}", fp)));
    };
    st.ev(&got.fingerprint);
    if got.fingerprint != fp {
        let gp: Vec<&str> = got.fingerprint.split('|').collect();
        let rp: Vec<&str> = fp.split('|').collect();
        let names = ["settings", "window_update", "priority", "pseudo_headers"];
        let mut which = "shape".to_string();
        if gp.len() == 4 && rp.len() == 4 {
            for i in 0..4 {
                if gp[i] != rp[i] {
                    which = names[i].to_string();
                    break;
                }
            }
        }
        if which == "pseudo_headers" && scn.structure.headers_flags & (http2::F_PADDED | http2::F_PRIORITY) != 0 {
            which = "pseudo_headers:HEADERS-with-PADDED-or-PRIORITY-flag".to_string();
        }
        return Err(Violation::new("format", which, format!("one-shot fingerprint differs from the published format\n  reference: {}\n  reported:  {}\n  HEADERS flags: {:#04x}", fp, got.fingerprint, scn.structure.headers_flags)));
    }
    if got.hash != hash {
        return Err(Violation::new("format", "hash", format!("hash {} != first 32 hex chars of sha256 = {}", got.hash, hash)));
    }
    Ok(())
}

fn gen_cuts(r: &mut Rng, len: usize, st: &Structure) -> Vec<usize> {
    if len < 3 {
        return vec![];
    }
    let mut c: Vec<usize> = match r.below(7) {
        0 => vec![],
        1 => vec![r.urange(1, len - 1)],
        2 => (1..len).collect(), // one-byte chunks
        3 => {
            // around SETTINGS
            let e = st.first_settings_end;
            let mut v = vec![e.saturating_sub(1), e, e + 1, e.saturating_sub(9), 24, 12, 24 + 9];
            v.retain(|_| r.chance(1, 2));
            v
        }
        4 => {
            let m = *r.pick(&[3usize, 7, 9, 16, 24, 33, 100]);
            (1..).map(|k| k * m).take_while(|x| *x < len).collect()
        }
        _ => {
            let parts = r.urange(2, 16);
            r.cuts(len, parts)
        }
    };
    // planted look-alikes of a connection start: more often than not a cut exactly in front of one
    for h in &st.hot {
        if r.chance(2, 3) {
            c.push(*h);
            if r.chance(1, 3) {
                c.push(*h + *r.pick(&[1usize, 9, 24, 25]));
            }
        }
    }
    c.sort();
    c.dedup();
    c.retain(|x| *x >= 1 && *x < len);
    c
}

impl Prop for C17 {
    type Scn = Scn;
    const ID: &'static str = "C17";
    const ENGINE: &'static str = crate::NETSIM_ENGINE;

    fn rule() -> &'static str {
        "one evaluation = one chunking history of one generated HTTP/2 connection start through Http2FingerprintExtractor (plus one format comparison per stream against the reference model); non-trivial = a non-empty first SETTINGS frame completes AND the stream is fed in >= 2 chunks; distinct = distinct event-log hash (chunk ends, results)"
    }

    fn runs(tier: Tier) -> u64 {
        tier.pick(60_000, 3_000_000)
    }

    fn generate(r: &mut Rng, tier: Tier, _idx: u64) -> Scn {
        let odd = r.chance(1, 3);
        let big = if odd && r.chance(1, 4) { Some(r.urange(16385, 20000)) } else { None };
        let o = Opts { request: true, hostile: Hostile::None, fancy_headers: r.chance(1, 3), odd_order: odd, self_ref: r.chance(1, 4), continuation: false, big_frame: big, announce_max_frame: r.chance(1, 10), huge_block: 0, extra_streams: 0, leading_frames: 0 };
        // one stream in forty carries a header block of tens to hundreds of KiB (one HEADERS frame and up to ~36 maximal CONTINUATION frames)
        let huge = if r.chance(1, 40) { *r.pick(&[20_000usize, 70_000, 150_000, 270_000, 400_000, 600_000]) + r.usize_below(5000) } else { 0 };
        // one stream in sixty starts with thousands of ignorable frames ahead of SETTINGS
        let lead = if huge == 0 && r.chance(1, 60) { *r.pick(&[100usize, 1000, 4095, 4096, 4097, 5000, 9000]) } else { 0 };
        let o = Opts { huge_block: huge, leading_frames: lead, ..o };
        let (stream, structure) = http2::connection_start(r, &o);
        let n = if huge > 0 { 2 } else if lead > 0 { 4 } else { tier.pick(10, 24) };
        let chunkings = (0..n).map(|_| gen_cuts(r, stream.len(), &structure)).collect();
        Scn { stream, structure, chunkings, reuse_after_reset: r.chance(1, 4) }
    }

    fn systematic(tier: Tier) -> Vec<Scn> {
        let mut out = vec![];
        let n = tier.pick(3, 40);
        for h in 0..n {
            let mut r = Rng::new(0xC17_0000 + h as u64);
            let o = Opts { request: true, hostile: Hostile::None, fancy_headers: false, odd_order: h % 3 == 2, self_ref: false, continuation: false, big_frame: None, announce_max_frame: false, huge_block: 0, extra_streams: 0, leading_frames: 0 };
            let (stream, structure) = loop {
                let (s, st) = http2::connection_start(&mut r, &o);
                if s.len() <= 400 {
                    break (s, st);
                }
            };
            let len = stream.len();
            let mut all: Vec<Vec<usize>> = (1..len).map(|c| vec![c]).collect();
            if tier == Tier::Thorough && len <= 200 && h < 10 {
                for a in 1..len {
                    for b in (a + 1)..len {
                        all.push(vec![a, b]);
                    }
                }
            }
            for ch in all.chunks(1024) {
                out.push(Scn { stream: stream.clone(), structure: structure.clone(), chunkings: ch.to_vec(), reuse_after_reset: false });
            }
        }
        out
    }

    fn run(scn: &Scn, st: &mut RunStats) -> Result<(), Violation> {
        st.evals = 0;
        check_format(scn, st)?;
        for cuts in &scn.chunkings {
            st.evals += 1;
            st.ev_u64(cuts.len() as u64);
            for c in cuts {
                st.ev_u64(*c as u64);
                if scn.structure.has_preface && *c < http2::PREFACE.len() {
                    st.probe("cut_inside_preface");
                }
                let e = scn.structure.first_settings_end;
                if *c < e && *c + 9 + 6 * scn.structure.first_settings.as_ref().map(|v| v.len()).unwrap_or(0) > e {
                    st.probe("cut_inside_first_settings_frame");
                }
                if *c == e {
                    st.probe("cut_exactly_after_settings");
                }
            }
            st.fault_n("chunk_cut", cuts.len() as u64);
            if scn.stream.len() > 262_144 {
                st.probe("header_block_above_256KiB");
            }
            check_incremental(scn, cuts, st)?;
        }
        if scn.reuse_after_reset {
            // reuse across connections: an extractor abandoned in the middle of ANOTHER connection's start (any
            // prefix of it, fed in any chunks), after reset(), behaves like a fresh one on this stream for every chunking
            {
                let mut r = Rng::new(crate::rng::mix64(scn.stream.len() as u64 ^ 0xC17E) ^ scn.stream.iter().take(64).fold(0u64, |h, b| crate::rng::mix64(h ^ *b as u64)));
                let o = Opts { request: true, hostile: Hostile::None, fancy_headers: r.chance(1, 3), odd_order: r.chance(1, 3), self_ref: false, continuation: false, big_frame: None, announce_max_frame: false, huge_block: 0, extra_streams: 0, leading_frames: 0 };
                let (other, _) = http2::connection_start(&mut r, &o);
                for cuts in scn.chunkings.iter().take(4) {
                    let stop = r.usize_below(other.len() + 1);
                    let mut used = huginn_net_http::Http2FingerprintExtractor::new();
                    let mut at = 0;
                    while at < stop {
                        let n = (1 + r.usize_below(40)).min(stop - at);
                        let _ = used.add_bytes(&other[at..at + n]);
                        at += n;
                    }
                    used.reset();
                    let mut fresh = huginn_net_http::Http2FingerprintExtractor::new();
                    let mut a = 0;
                    let mut ends: Vec<usize> = cuts.clone();
                    ends.push(scn.stream.len());
                    for (k, e) in ends.iter().enumerate() {
                        if *e <= a || *e > scn.stream.len() {
                            continue;
                        }
                        let x = used.add_bytes(&scn.stream[a..*e]).ok().flatten().map(|f| fp_text(&f));
                        let y = fresh.add_bytes(&scn.stream[a..*e]).ok().flatten().map(|f| fp_text(&f));
                        if x != y {
                            return Err(Violation::new("reset-not-fresh", "extractor-after-abandoned-connection", format!("extractor abandoned {} bytes into another connection, reset(), then this stream: chunk {} (bytes {}..{}) gives {:?}, a fresh extractor gives {:?}", stop, k, a, e, x, y)));
                        }
                        a = *e;
                    }
                    st.evals += 1;
                    st.probe("reset_after_abandoned_connection_checked");
                }
            }
            // C01-style reuse: an extractor that has seen this stream, after reset(), behaves like a fresh one
            let mut used = huginn_net_http::Http2FingerprintExtractor::new();
            let _ = used.add_bytes(&scn.stream);
            used.reset();
            let mut fresh = huginn_net_http::Http2FingerprintExtractor::new();
            let a = used.add_bytes(&scn.stream).ok().flatten().map(|f| fp_text(&f));
            let b = fresh.add_bytes(&scn.stream).ok().flatten().map(|f| fp_text(&f));
            st.probe("reset_reuse_checked");
            if a != b {
                return Err(Violation::new("reset-not-fresh", "extractor", format!("after reset(): {:?}, fresh: {:?}", a, b)));
            }
        }
        Ok(())
    }

    fn shrink(scn: &Scn) -> Vec<Scn> {
        let mut out = vec![];
        if scn.chunkings.len() > 1 {
            for c in &scn.chunkings {
                let mut s = scn.clone();
                s.chunkings = vec![c.clone()];
                s.reuse_after_reset = false;
                out.push(s);
            }
        }
        if scn.chunkings.len() == 1 {
            let n = scn.chunkings[0].len();
            if n > 32 {
                // many cuts (byte-by-byte feeding of a long stream): halve instead of proposing one candidate per cut
                for keep in [0usize, 1] {
                    let mut s = scn.clone();
                    s.chunkings[0] = scn.chunkings[0].iter().enumerate().filter(|(i, _)| (*i < n / 2) == (keep == 0)).map(|(_, c)| *c).collect();
                    out.push(s);
                }
                let mut s = scn.clone();
                s.chunkings[0] = scn.chunkings[0].iter().step_by(2).cloned().collect();
                out.push(s);
            } else {
                for i in 0..n {
                    let mut s = scn.clone();
                    s.chunkings[0].remove(i);
                    out.push(s);
                }
            }
        }
        if !scn.chunkings.is_empty() {
            let mut s = scn.clone();
            s.chunkings.clear();
            out.push(s);
        }
        out
    }
}
