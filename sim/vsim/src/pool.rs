//! poolsim: the repository's three `WorkerPool`s executed under shuttle's scheduler.
//!
//! Everything here exists only in the build with `--cfg huginn_net_verif_sched`, where the pool
//! modules' `std::{thread, sync::atomic, sync::mpsc, sync::Mutex}` and `crossbeam_channel` resolve
//! to shuttle's primitives and the model channel. One execution = one scenario under one schedule
//! seed; the scenario (frames, pool configuration, dispatcher layout) is fixed outside the
//! scheduled closure, so the schedule is the only thing that varies between executions of it.

#![cfg(huginn_net_verif_sched)]

use crate::sut::{self, FilterSpec, Obs};
use serde::{Deserialize, Serialize};
use shuttle::scheduler::{PctScheduler, RandomScheduler};
use std::sync::Arc;

#[derive(Clone, Copy, Debug, PartialEq, Eq, Serialize, Deserialize, Hash, PartialOrd, Ord)]
pub enum PoolKind {
    Tcp,
    Http,
    Tls,
}

impl PoolKind {
    pub const ALL: [PoolKind; 3] = [PoolKind::Tcp, PoolKind::Http, PoolKind::Tls];
    pub fn name(&self) -> &'static str {
        match self {
            PoolKind::Tcp => "tcp-pool",
            PoolKind::Http => "http-pool",
            PoolKind::Tls => "tls-pool",
        }
    }
    pub fn sut_kind(&self) -> sut::Kind {
        match self {
            PoolKind::Tcp => sut::Kind::Tcp,
            PoolKind::Http => sut::Kind::Http,
            PoolKind::Tls => sut::Kind::Tls,
        }
    }
}

#[derive(Clone, Debug, Serialize, Deserialize)]
pub struct PoolCfg {
    pub kind: PoolKind,
    pub workers: usize,
    pub queue: usize,
    pub batch: usize,
    pub timeout_ms: u64,
    pub cap: usize,
    pub with_db: bool,
    pub filter: Option<FilterSpec>,
}

#[derive(Clone, Debug, Default, PartialEq, Eq)]
pub struct StatsSnap {
    pub dispatched: u64,
    pub dropped: u64,
    /// (queue_size, dropped) per worker
    pub workers: Vec<(usize, u64)>,
}

pub trait PoolApi: Send + Sync {
    /// true = Queued, false = Dropped
    fn dispatch(&self, p: Vec<u8>) -> bool;
    fn stats(&self) -> StatsSnap;
    fn shutdown(&self);
}

struct TcpP(huginn_net_tcp::WorkerPool);
struct HttpP(Arc<huginn_net_http::WorkerPool>);
struct TlsP(huginn_net_tls::WorkerPool);

impl PoolApi for TcpP {
    fn dispatch(&self, p: Vec<u8>) -> bool {
        self.0.dispatch(p) == huginn_net_tcp::DispatchResult::Queued
    }
    fn stats(&self) -> StatsSnap {
        let s = self.0.stats();
        StatsSnap { dispatched: s.total_dispatched, dropped: s.total_dropped, workers: s.workers.iter().map(|w| (w.queue_size, w.dropped)).collect() }
    }
    fn shutdown(&self) {
        self.0.shutdown()
    }
}
impl PoolApi for HttpP {
    fn dispatch(&self, p: Vec<u8>) -> bool {
        self.0.dispatch(p) == huginn_net_http::DispatchResult::Queued
    }
    fn stats(&self) -> StatsSnap {
        let s = self.0.stats();
        StatsSnap { dispatched: s.total_dispatched, dropped: s.total_dropped, workers: s.workers.iter().map(|w| (w.queue_size, w.dropped)).collect() }
    }
    fn shutdown(&self) {
        self.0.shutdown()
    }
}
impl PoolApi for TlsP {
    fn dispatch(&self, p: Vec<u8>) -> bool {
        self.0.dispatch(p) == huginn_net_tls::DispatchResult::Queued
    }
    fn stats(&self) -> StatsSnap {
        let s = self.0.stats();
        StatsSnap { dispatched: s.total_dispatched, dropped: s.total_dropped, workers: s.workers.iter().map(|w| (w.queue_size, w.dropped)).collect() }
    }
    fn shutdown(&self) {
        self.0.shutdown()
    }
}

/// blocking receive of the next result, rendered; None when every sender is gone
pub type RecvFn = Box<dyn Fn() -> Option<Vec<Obs>> + Send>;
/// non-blocking variant: Some(Some(..)) result, Some(None) empty right now, None disconnected
pub type TryRecvFn = Box<dyn Fn() -> Option<Option<Vec<Obs>>> + Send>;

/// Create the real pool (must be called inside a shuttle execution).
pub fn make_pool(c: &PoolCfg) -> Result<(Arc<dyn PoolApi>, RecvFn), String> {
    use huginn_net_verif_rt::std::sync::mpsc;
    match c.kind {
        PoolKind::Tcp => {
            let (tx, rx) = mpsc::channel();
            let p = huginn_net_tcp::WorkerPool::new(c.workers, c.queue, c.batch, c.timeout_ms, tx, if c.with_db { Some(sut::db()) } else { None }, c.cap, c.filter.as_ref().map(sut::filter_tcp)).map_err(|e| format!("{}", e))?;
            Ok((Arc::new(TcpP(p)), Box::new(move || rx.recv().ok().map(|r| sut::obs_tcp(&r)))))
        }
        PoolKind::Http => {
            let (tx, rx) = mpsc::channel();
            let p = huginn_net_http::WorkerPool::new(c.workers, c.queue, c.batch, c.timeout_ms, tx, if c.with_db { Some(sut::db()) } else { None }, c.cap, c.filter.as_ref().map(sut::filter_http)).map_err(|e| format!("{}", e))?;
            Ok((Arc::new(HttpP(p)), Box::new(move || rx.recv().ok().map(|r| sut::obs_http(&r)))))
        }
        PoolKind::Tls => {
            let (tx, rx) = mpsc::channel();
            let p = huginn_net_tls::WorkerPool::new(c.workers, c.queue, c.batch, c.timeout_ms, tx, c.cap, c.filter.as_ref().map(sut::filter_tls)).map_err(|e| format!("{}", e))?;
            Ok((Arc::new(TlsP(p)), Box::new(move || rx.recv().ok().map(|r| vec![sut::obs_tls(&r)]))))
        }
    }
}

/// As `make_pool`, with a non-blocking receive: Some(Some(..)) a result, Some(None) nothing right now, None = every
/// sender is gone.
pub fn make_pool_try(c: &PoolCfg) -> Result<(Arc<dyn PoolApi>, TryRecvFn), String> {
    use huginn_net_verif_rt::std::sync::mpsc;
    fn conv<T>(r: Result<T, mpsc::TryRecvError>, f: impl Fn(&T) -> Vec<Obs>) -> Option<Option<Vec<Obs>>> {
        match r {
            Ok(x) => Some(Some(f(&x))),
            Err(mpsc::TryRecvError::Empty) => Some(None),
            Err(mpsc::TryRecvError::Disconnected) => None,
        }
    }
    match c.kind {
        PoolKind::Tcp => {
            let (tx, rx) = mpsc::channel();
            let p = huginn_net_tcp::WorkerPool::new(c.workers, c.queue, c.batch, c.timeout_ms, tx, if c.with_db { Some(sut::db()) } else { None }, c.cap, c.filter.as_ref().map(sut::filter_tcp)).map_err(|e| format!("{}", e))?;
            Ok((Arc::new(TcpP(p)), Box::new(move || conv(rx.try_recv(), |r| sut::obs_tcp(r)))))
        }
        PoolKind::Http => {
            let (tx, rx) = mpsc::channel();
            let p = huginn_net_http::WorkerPool::new(c.workers, c.queue, c.batch, c.timeout_ms, tx, if c.with_db { Some(sut::db()) } else { None }, c.cap, c.filter.as_ref().map(sut::filter_http)).map_err(|e| format!("{}", e))?;
            Ok((Arc::new(HttpP(p)), Box::new(move || conv(rx.try_recv(), |r| sut::obs_http(r)))))
        }
        PoolKind::Tls => {
            let (tx, rx) = mpsc::channel();
            let p = huginn_net_tls::WorkerPool::new(c.workers, c.queue, c.batch, c.timeout_ms, tx, c.cap, c.filter.as_ref().map(sut::filter_tls)).map_err(|e| format!("{}", e))?;
            Ok((Arc::new(TlsP(p)), Box::new(move || conv(rx.try_recv(), |r| vec![sut::obs_tls(r)]))))
        }
    }
}

/// worker index the pool's own hash assigns to a frame (None = TLS pool discards it)
pub fn worker_of(kind: PoolKind, frame: &[u8], workers: usize) -> Option<usize> {
    match kind {
        PoolKind::Tcp => Some(huginn_net_tcp::packet_hash::hash_source_ip(frame).checked_rem(workers).unwrap_or(0)),
        PoolKind::Http => Some(huginn_net_http::packet_hash::hash_flow(frame, workers)),
        PoolKind::Tls => huginn_net_tls::packet_hash::hash_flow(frame, workers),
    }
}

#[derive(Clone, Debug, Default)]
pub struct ExecOut {
    /// per dispatcher, per frame: queued?
    pub outcomes: Vec<Vec<bool>>,
    /// stats() sampled concurrently with dispatching (monotonicity)
    pub stats_during: Vec<StatsSnap>,
    /// stats() after the expected results were received, before the pool is dropped
    pub stats_after: StatsSnap,
    /// results in the order received
    pub results: Vec<Vec<Obs>>,
    /// how many were received before `stats_after` was taken
    pub received_before_stats: usize,
    pub chan: verif_chan::EvLog,
    /// fault: the consumer of results went away (its receiver was dropped) while dispatching was in progress
    pub consumer_gone: bool,
    /// fault: shutdown() was called by another thread while dispatching was in progress
    pub shutdown_raced: bool,
}

pub struct ExecPlan {
    /// run through the analyzer's own process_parallel loop instead of calling dispatch directly
    pub via_analyzer: bool,
    pub cfg: PoolCfg,
    /// frames each dispatcher thread hands to the pool, in order
    pub dispatchers: Vec<Vec<Vec<u8>>>,
    /// a thread that calls stats() this many times while dispatching runs (0 = none)
    pub stats_calls: usize,
    /// how many results to wait for before taking the final stats (None = do not wait: drop and drain)
    pub wait_for: Option<Arc<dyn Fn(&[Vec<bool>]) -> usize + Send + Sync>>,
    /// fault: the consumer of results goes away — the result receiver is dropped by dispatcher 0 after it has
    /// handed over this many of its frames (0 = before the first one)
    pub consumer_gone_after: Option<usize>,
    /// fault: a separate thread calls shutdown() after yielding this many times, while the dispatchers run
    pub shutdown_after_yields: Option<usize>,
    /// fault: the traffic pauses before dispatcher 0's frame `.0` for `.1` simulated ns: the dispatcher waits for
    /// the queues to drain, the simulated clock moves, and every worker's pending receive times out
    pub idle_gap: Option<(usize, u64)>,
    /// via_analyzer only (HTTP): after the capture was handed to the pool, the application - which holds a handle
    /// to the pool for its statistics - initialises a new pool for the next capture on the same analyzer
    pub reinit_pool: bool,
    /// via_analyzer only: the application sets the run's cancel signal while the packet source hands over the frame
    /// with this index (Ctrl-C during a capture): the loop stops without taking that frame; everything it took
    /// before must still be analysed
    pub cancel_after: Option<usize>,
}

/// The body of one scheduled execution.
pub fn exec(plan: &ExecPlan) -> Result<ExecOut, String> {
    use shuttle::thread;
    verif_chan::evlog_reset();
    verif_chan::reset_ids();
    let (pool, recv) = make_pool(&plan.cfg)?;
    let mut hs = vec![];
    let mut recv = Some(recv);
    for (di, frames) in plan.dispatchers.iter().cloned().enumerate() {
        let p = pool.clone();
        let mut doomed = if di == 0 && plan.consumer_gone_after.is_some() { recv.take() } else { None };
        let gone_at = plan.consumer_gone_after.unwrap_or(usize::MAX);
        let gap = if di == 0 { plan.idle_gap } else { None };
        let workers = plan.cfg.workers;
        hs.push(thread::spawn(move || {
            let mut v = vec![];
            for (i, f) in frames.into_iter().enumerate() {
                if i == gone_at {
                    drop(doomed.take());
                }
                if let Some((at, ns)) = gap {
                    if i == at {
                        for _ in 0..1000 {
                            if p.stats().workers.iter().all(|w| w.0 == 0) {
                                break;
                            }
                            thread::sleep(std::time::Duration::from_millis(0));
                        }
                        for _ in 0..8 * workers {
                            thread::sleep(std::time::Duration::from_millis(0));
                        }
                        huginn_net_verif_rt::clock::advance_ns(ns);
                        verif_chan::force_timeouts(2 * workers as u32);
                        for _ in 0..16 * workers {
                            thread::sleep(std::time::Duration::from_millis(0));
                        }
                    }
                }
                v.push(p.dispatch(f));
            }
            drop(doomed.take());
            v
        }));
    }
    let stats_h = if plan.stats_calls > 0 {
        let p = pool.clone();
        let n = plan.stats_calls;
        Some(thread::spawn(move || {
            let mut v = vec![];
            for _ in 0..n {
                v.push(p.stats());
                thread::yield_now();
            }
            v
        }))
    } else {
        None
    };
    let shut_h = plan.shutdown_after_yields.map(|k| {
        let p = pool.clone();
        thread::spawn(move || {
            for _ in 0..k {
                thread::sleep(std::time::Duration::from_millis(0));
            }
            p.shutdown();
        })
    });
    let mut out = ExecOut::default();
    if let Some(h) = shut_h {
        h.join().map_err(|_| "shutdown thread panicked".to_string())?;
        out.shutdown_raced = true;
    }
    for h in hs {
        out.outcomes.push(h.join().map_err(|_| "dispatcher thread panicked".to_string())?);
    }
    if let Some(h) = stats_h {
        out.stats_during = h.join().map_err(|_| "stats thread panicked".to_string())?;
    }
    let recv = match recv {
        Some(r) => r,
        None => {
            // nobody receives: only the counters can be compared with the outcomes
            out.consumer_gone = true;
            out.stats_after = pool.stats();
            drop(pool);
            out.chan = verif_chan::evlog_snapshot();
            return Ok(out);
        }
    };
    if let (Some(w), false) = (&plan.wait_for, out.shutdown_raced) {
        let n = w(&out.outcomes);
        while out.results.len() < n {
            match recv() {
                Some(r) => out.results.push(r),
                None => break,
            }
        }
        out.received_before_stats = out.results.len();
    }
    out.stats_after = pool.stats();
    drop(pool);
    while let Some(r) = recv() {
        out.results.push(r);
    }
    out.chan = verif_chan::evlog_snapshot();
    Ok(out)
}

/// The same trace through the analyzer's own parallel packet loop (`with_config` + `init_pool` +
/// `process_with` via hook H3) instead of direct `WorkerPool::dispatch` calls: this is what
/// `analyze_pcap` / `analyze_network` run in parallel mode. After the loop returns the analyzer is
/// dropped (which releases the pool) and the result channel is drained.
pub fn exec_via_analyzer(plan: &ExecPlan) -> Result<ExecOut, String> {
    use huginn_net_verif_rt::std::sync::mpsc;
    verif_chan::evlog_reset();
    verif_chan::reset_ids();
    let c = &plan.cfg;
    let frames: Vec<Vec<u8>> = plan.dispatchers.first().cloned().unwrap_or_default();
    let mut out = ExecOut::default();
    match c.kind {
        PoolKind::Tcp => {
            let (tx, rx) = mpsc::channel();
            let mut a = huginn_net_tcp::HuginnNetTcp::with_config(if c.with_db { Some(sut::db()) } else { None }, c.cap, c.workers, c.queue, c.batch, c.timeout_ms).map_err(|e| format!("{}", e))?;
            if let Some(f) = &c.filter {
                a = a.with_filter(sut::filter_tcp(f));
            }
            a.init_pool(tx.clone()).map_err(|e| format!("{}", e))?;
            let mut it = frames.into_iter();
            let cancel = plan.cancel_after.map(|_| Arc::new(huginn_net_verif_rt::std::sync::atomic::AtomicBool::new(false)));
            let (c2, at) = (cancel.clone(), plan.cancel_after);
            let mut handed = 0usize;
            let src = move || {
                if let (Some(c), Some(k)) = (&c2, at) {
                    if handed == k {
                        c.store(true, std::sync::atomic::Ordering::SeqCst);
                    }
                }
                handed += 1;
                it.next().map(Ok)
            };
            a.verif_process_with(src, tx, cancel).map_err(|e| format!("{}", e))?;
            if let Some(s) = a.stats() {
                out.stats_after = StatsSnap { dispatched: s.total_dispatched, dropped: s.total_dropped, workers: s.workers.iter().map(|w| (w.queue_size, w.dropped)).collect() };
            }
            drop(a);
            while let Ok(r) = rx.recv() {
                out.results.push(sut::obs_tcp(&r));
            }
        }
        PoolKind::Http => {
            let (tx, rx) = mpsc::channel();
            let mut a = huginn_net_http::HuginnNetHttp::with_config(if c.with_db { Some(sut::db()) } else { None }, c.cap, c.workers, c.queue, c.batch, c.timeout_ms).map_err(|e| format!("{}", e))?;
            if let Some(f) = &c.filter {
                a = a.with_filter(sut::filter_http(f));
            }
            a.init_pool(tx.clone()).map_err(|e| format!("{}", e))?;
            let monitor = if plan.reinit_pool { a.worker_pool().cloned() } else { None };
            let mut it = frames.into_iter();
            let cancel = plan.cancel_after.map(|_| Arc::new(huginn_net_verif_rt::std::sync::atomic::AtomicBool::new(false)));
            let (c2, at) = (cancel.clone(), plan.cancel_after);
            let mut handed = 0usize;
            let src = move || {
                if let (Some(c), Some(k)) = (&c2, at) {
                    if handed == k {
                        c.store(true, std::sync::atomic::Ordering::SeqCst);
                    }
                }
                handed += 1;
                it.next().map(Ok)
            };
            a.verif_process_with(src, tx, cancel).map_err(|e| format!("{}", e))?;
            if let Some(s) = a.stats() {
                out.stats_after = StatsSnap { dispatched: s.total_dispatched, dropped: s.total_dropped, workers: s.workers.iter().map(|w| (w.queue_size, w.dropped)).collect() };
            }
            if plan.reinit_pool {
                // the next capture gets a pool and a result channel of its own; what the first pool still has queued
                // must nevertheless be analysed (the monitor keeps that pool alive)
                let (tx2, _rx2) = mpsc::channel();
                a.init_pool(tx2).map_err(|e| format!("{}", e))?;
                for _ in 0..50 {
                    shuttle::thread::sleep(std::time::Duration::from_millis(0));
                }
            }
            drop(monitor);
            drop(a);
            while let Ok(r) = rx.recv() {
                out.results.push(sut::obs_http(&r));
            }
        }
        PoolKind::Tls => {
            let (tx, rx) = mpsc::channel();
            let mut a = huginn_net_tls::HuginnNetTls::with_config_and_max_connections(c.workers, c.queue, c.batch, c.timeout_ms, c.cap);
            if let Some(f) = &c.filter {
                a = a.with_filter(sut::filter_tls(f));
            }
            let mut it = frames.into_iter();
            let cancel = plan.cancel_after.map(|_| Arc::new(huginn_net_verif_rt::std::sync::atomic::AtomicBool::new(false)));
            let (c2, at) = (cancel.clone(), plan.cancel_after);
            let mut handed = 0usize;
            let src = move || {
                if let (Some(c), Some(k)) = (&c2, at) {
                    if handed == k {
                        c.store(true, std::sync::atomic::Ordering::SeqCst);
                    }
                }
                handed += 1;
                it.next().map(Ok)
            };
            a.verif_process_with(src, tx, cancel).map_err(|e| format!("{}", e))?;
            drop(a);
            while let Ok(r) = rx.recv() {
                out.results.push(vec![sut::obs_tls(&r)]);
            }
        }
    }
    out.outcomes = vec![vec![]];
    out.chan = verif_chan::evlog_snapshot();
    Ok(out)
}

#[derive(Clone, Copy, Debug, Serialize, Deserialize, PartialEq, Eq)]
pub enum Sched {
    Random,
    Pct(usize),
}

/// Run `f` `iters` times under shuttle, schedules drawn from one scheduler seeded with `seed`
/// (iteration k's schedule is a pure function of (seed, k) and the code). Panics (worker panics,
/// deadlocks, step-limit) propagate to the caller.
pub fn run_scheduled<F: Fn() + Send + Sync + 'static>(seed: u64, sched: Sched, iters: usize, f: F) {
    run_scheduled_steps(seed, sched, iters, 2_000_000, f)
}

pub fn run_scheduled_steps<F: Fn() + Send + Sync + 'static>(seed: u64, sched: Sched, iters: usize, max_steps: usize, f: F) {
    let mut cfg = shuttle::Config::new();
    cfg.stack_size = 1 << 21;
    cfg.max_steps = shuttle::MaxSteps::FailAfter(max_steps);
    cfg.failure_persistence = shuttle::FailurePersistence::None;
    cfg.silence_warnings = true;
    // the execution's clock thread: while the scenario runs, time passes (see verif_chan::tick) - a receive with a
    // finite timeout never blocks for good, so a thread that waits for a worker to notice something by polling is
    // served, and only a wait that nothing can end shows up as an execution that does not finish
    let f = move || {
        let done = Arc::new(shuttle::sync::atomic::AtomicBool::new(false));
        let d2 = done.clone();
        let clock = shuttle::thread::spawn(move || {
            while !d2.load(std::sync::atomic::Ordering::SeqCst) {
                verif_chan::tick();
                shuttle::thread::yield_now();
            }
        });
        f();
        done.store(true, std::sync::atomic::Ordering::SeqCst);
        let _ = clock.join();
    };
    match sched {
        Sched::Random => {
            shuttle::Runner::new(RandomScheduler::new_from_seed(seed, iters.max(1)), cfg).run(f);
        }
        Sched::Pct(d) => {
            shuttle::Runner::new(PctScheduler::new_from_seed(seed, d.max(1), iters.max(1)), cfg).run(f);
        }
    }
}

/// Run one plan under `iters` schedules of one scheduler seed and hand back what each observed.
pub fn run_plan(plan: Arc<ExecPlan>, seed: u64, sched: Sched, iters: usize) -> Result<Vec<ExecOut>, String> {
    let slot: Arc<std::sync::Mutex<Vec<Result<ExecOut, String>>>> = Arc::new(std::sync::Mutex::new(vec![]));
    let s2 = slot.clone();
    // the simulated wall clock is frozen for the execution (std thread-locals are shared by all
    // shuttle threads of one execution, which run on this OS thread)
    huginn_net_verif_rt::clock::arm(1_700_000_000_000);
    run_scheduled(seed, sched, iters, move || {
        let r = if plan.via_analyzer { exec_via_analyzer(&plan) } else { exec(&plan) };
        s2.lock().unwrap().push(r);
    });
    let v = std::mem::take(&mut *slot.lock().unwrap());
    if v.is_empty() {
        return Err("execution produced no outcome".to_string());
    }
    v.into_iter().collect()
}
