//! Counting allocator: per-OS-thread allocated bytes, live bytes and allocation calls, so a
//! simulated run can sample what handling one packet cost and what the analyzer retains.
//! Deterministic for a given build because the simulated run is.

use std::alloc::{GlobalAlloc, Layout, System};
use std::cell::Cell;

pub struct Counting;

thread_local! {
    static ALLOCATED: Cell<u64> = const { Cell::new(0) };
    static FREED: Cell<u64> = const { Cell::new(0) };
    static CALLS: Cell<u64> = const { Cell::new(0) };
}

unsafe impl GlobalAlloc for Counting {
    unsafe fn alloc(&self, l: Layout) -> *mut u8 {
        let _ = ALLOCATED.try_with(|a| a.set(a.get() + l.size() as u64));
        let _ = CALLS.try_with(|a| a.set(a.get() + 1));
        System.alloc(l)
    }
    unsafe fn dealloc(&self, p: *mut u8, l: Layout) {
        let _ = FREED.try_with(|a| a.set(a.get() + l.size() as u64));
        System.dealloc(p, l)
    }
    unsafe fn alloc_zeroed(&self, l: Layout) -> *mut u8 {
        let _ = ALLOCATED.try_with(|a| a.set(a.get() + l.size() as u64));
        let _ = CALLS.try_with(|a| a.set(a.get() + 1));
        System.alloc_zeroed(l)
    }
    unsafe fn realloc(&self, p: *mut u8, l: Layout, new: usize) -> *mut u8 {
        let _ = ALLOCATED.try_with(|a| a.set(a.get() + new as u64));
        let _ = FREED.try_with(|a| a.set(a.get() + l.size() as u64));
        let _ = CALLS.try_with(|a| a.set(a.get() + 1));
        System.realloc(p, l, new)
    }
}

#[derive(Clone, Copy, Debug, Default)]
pub struct Snap {
    pub allocated: u64,
    pub freed: u64,
    pub calls: u64,
}

impl Snap {
    pub fn live(&self) -> i64 {
        self.allocated as i64 - self.freed as i64
    }
}

pub fn snap() -> Snap {
    Snap { allocated: ALLOCATED.with(|a| a.get()), freed: FREED.with(|a| a.get()), calls: CALLS.with(|a| a.get()) }
}
