//! One integer decides everything: SplitMix64 seeded from (VERIF_SEED, property, run index).

#[derive(Clone, Debug)]
pub struct Rng {
    s: u64,
}

pub fn mix64(mut z: u64) -> u64 {
    z = z.wrapping_add(0x9E3779B97F4A7C15);
    z = (z ^ (z >> 30)).wrapping_mul(0xBF58476D1CE4E5B9);
    z = (z ^ (z >> 27)).wrapping_mul(0x94D049BB133111EB);
    z ^ (z >> 31)
}

pub fn hash_str(s: &str) -> u64 {
    let mut h = 0xcbf29ce484222325u64;
    for b in s.bytes() {
        h ^= b as u64;
        h = h.wrapping_mul(0x100000001b3);
    }
    h
}

pub fn hash_bytes(h0: u64, b: &[u8]) -> u64 {
    let mut h = h0 ^ 0xcbf29ce484222325u64;
    for x in b {
        h ^= *x as u64;
        h = h.wrapping_mul(0x100000001b3);
    }
    mix64(h)
}

/// seed of run `i` of property `prop` in a batch started with `seed`
pub fn run_seed(seed: u64, prop: &str, i: u64) -> u64 {
    mix64(mix64(seed ^ hash_str(prop)).wrapping_add(i.wrapping_mul(0xD1342543DE82EF95)))
}

impl Rng {
    pub fn new(seed: u64) -> Self {
        Rng { s: seed }
    }
    pub fn fork(&mut self) -> Rng {
        Rng::new(self.next_u64())
    }
    pub fn next_u64(&mut self) -> u64 {
        self.s = self.s.wrapping_add(0x9E3779B97F4A7C15);
        let mut z = self.s;
        z = (z ^ (z >> 30)).wrapping_mul(0xBF58476D1CE4E5B9);
        z = (z ^ (z >> 27)).wrapping_mul(0x94D049BB133111EB);
        z ^ (z >> 31)
    }
    pub fn u32(&mut self) -> u32 {
        (self.next_u64() >> 32) as u32
    }
    pub fn u16(&mut self) -> u16 {
        (self.next_u64() >> 48) as u16
    }
    pub fn u8(&mut self) -> u8 {
        (self.next_u64() >> 56) as u8
    }
    /// uniform in 0..n (n > 0)
    pub fn below(&mut self, n: u64) -> u64 {
        if n == 0 {
            return 0;
        }
        ((self.next_u64() as u128 * n as u128) >> 64) as u64
    }
    pub fn usize_below(&mut self, n: usize) -> usize {
        self.below(n as u64) as usize
    }
    /// uniform in lo..=hi
    pub fn range(&mut self, lo: u64, hi: u64) -> u64 {
        if hi <= lo {
            return lo;
        }
        lo + self.below(hi - lo + 1)
    }
    pub fn urange(&mut self, lo: usize, hi: usize) -> usize {
        self.range(lo as u64, hi as u64) as usize
    }
    /// true with probability num/den
    pub fn chance(&mut self, num: u64, den: u64) -> bool {
        self.below(den) < num
    }
    pub fn pick<'a, T>(&mut self, xs: &'a [T]) -> &'a T {
        &xs[self.usize_below(xs.len())]
    }
    pub fn bytes(&mut self, n: usize) -> Vec<u8> {
        let mut v = Vec::with_capacity(n);
        while v.len() < n {
            let x = self.next_u64().to_le_bytes();
            let k = (n - v.len()).min(8);
            v.extend_from_slice(&x[..k]);
        }
        v
    }
    pub fn shuffle<T>(&mut self, xs: &mut [T]) {
        for i in (1..xs.len()).rev() {
            let j = self.usize_below(i + 1);
            xs.swap(i, j);
        }
    }
    /// a random ordered partition of 0..len into `parts` non-empty pieces: returns cut offsets (strictly increasing, in 1..len)
    pub fn cuts(&mut self, len: usize, parts: usize) -> Vec<usize> {
        if len < 2 || parts < 2 {
            return vec![];
        }
        let want = (parts - 1).min(len - 1);
        let mut set = std::collections::BTreeSet::new();
        let mut guard = 0;
        while set.len() < want && guard < want * 20 + 50 {
            set.insert(1 + self.usize_below(len - 1));
            guard += 1;
        }
        set.into_iter().collect()
    }
}
