#![allow(dead_code)]
//! vsim — deterministic simulator for huginn-net.
//!
//!   vsim run <PROP> [--tier quick|thorough] [--seed N] [--jobs N] [--evidence PATH] [--out DIR] [--runs N]
//!   vsim hashes <PROP> [--runs N] [--jobs N] [--seed N]     per-run event-log hashes (determinism self-test)
//!   vsim replay <FILE>                                      re-run exactly the scenario in a replay file
//!   vsim list                                               properties this build (engine) serves
//!
//! Built twice from the same sources: without cfg huginn_net_verif_sched it is the `netsim`
//! engine (discrete-event packet path, real std); with it, the `poolsim` engine (real worker pools
//! under shuttle's scheduler).

mod alloc;
mod conn;
mod gen;
mod logsim;
mod pkt;
mod pool;
mod props;
mod rng;
mod runner;
mod sut;
mod tap;

use runner::{Opts, Prop, ReplayFile, Tier};

#[global_allocator]
static GLOBAL: alloc::Counting = alloc::Counting;

macro_rules! for_props {
    ($m:ident) => {
        #[cfg(not(huginn_net_verif_sched))]
        {
            $m!(props::c01::C01);
            $m!(props::c07::C07);
            $m!(props::c08::C08);
            $m!(props::c09::C09);
            $m!(props::c11::C11);
            $m!(props::c15::C15);
            $m!(props::c17::C17);
            $m!(props::c19::C19);
            $m!(props::c20::C20);
        }
        #[cfg(huginn_net_verif_sched)]
        {
            $m!(props::c10::C10);
            $m!(props::c10::C08Pool);
            $m!(props::c10::C01Pool);
            $m!(props::c10::C15Pool);
            $m!(props::c18::C18);
            $m!(props::c18::C11Pool);
        }
    };
}

/// netsim is built twice: as usual with overflow checks and debug assertions compiled in ("netsim"), and as a plain
/// release build without them ("netsim-plain") - the profile deployments run, in which `debug_assert!` bodies vanish
pub const NETSIM_ENGINE: &str = if cfg!(debug_assertions) { "netsim" } else { "netsim-plain" };

fn engine() -> &'static str {
    if cfg!(huginn_net_verif_sched) {
        "poolsim"
    } else {
        NETSIM_ENGINE
    }
}

fn dispatch_run(id: &str, o: &Opts) -> Option<i32> {
    macro_rules! try_run {
        ($t:ty) => {
            if <$t as Prop>::ID == id {
                return Some(runner::run_batch::<$t>(o));
            }
        };
    }
    for_props!(try_run);
    None
}

fn dispatch_emit(id: &str, o: &Opts, index: u64) -> Option<i32> {
    macro_rules! try_emit {
        ($t:ty) => {
            if <$t as Prop>::ID == id {
                return Some(runner::emit::<$t>(o, index));
            }
        };
    }
    for_props!(try_emit);
    None
}

fn dispatch_replay(path: &str, rf: &ReplayFile) -> Option<i32> {
    macro_rules! try_replay {
        ($t:ty) => {
            if <$t as Prop>::ID == rf.property && <$t as Prop>::ENGINE == rf.engine {
                return Some(runner::replay::<$t>(path, rf));
            }
        };
    }
    for_props!(try_replay);
    None
}

/// Process-global lazies in the code under test (signature database, lazy_static tables, tracing
/// call sites) are initialised by whichever run touches them first; which run that is depends on
/// the worker count. Touch them all once, before any run, so that per-run measurements (C11's
/// allocation counts in particular) are a function of the run alone.
#[cfg(not(huginn_net_verif_sched))]
fn warm_up() {
    use conn::{ConnKind, ConnOpts};
    let mut r = rng::Rng::new(1);
    let o = ConnOpts::default();
    // many connections of every kind (the generators branch a lot: header sets, language lists, hostile blocks, ...),
    // with logging on so that every log call site is registered too
    logsim::set(true);
    let kinds = [ConnKind::Http1, ConnKind::Http2, ConnKind::Http2Hostile, ConnKind::Tls, ConnKind::TcpOnly, ConnKind::Garbage, ConnKind::TlsThenHttpResponse, ConnKind::Http1Reversed, ConnKind::TlsReversed];
    for round in 0..24u16 {
        for (i, ck) in kinds.iter().enumerate() {
            let c = conn::build(&mut r, *ck, pkt::Endpoint::v4(10, 250, (round % 250) as u8, 1, 40000 + i as u16), pkt::Endpoint::v4(10, 250, 0, 2, 80), &o);
            let order = vec![0usize; c.steps.len()];
            let trace = conn::to_trace(&[c], &order);
            for k in sut::Kind::ALL {
                huginn_net_verif_rt::clock::arm(1_700_000_000_000);
                let _ = sut::run_deliver(&sut::SutCfg::new(k, 64), &trace);
                if round == 0 {
                    let _ = sut::run_loop(&sut::SutCfg::new(k, 64), &trace);
                }
            }
        }
    }
    let _ = logsim::take_events();
    huginn_net_verif_rt::clock::disarm();
}

#[cfg(huginn_net_verif_sched)]
fn warm_up() {
    let _ = sut::db();
}

fn main() {
    runner::install_panic_hook();
    logsim::install();
    // (a change to the code under test may make the warm-up traffic panic; that is for the runs to find and report,
    // not a reason for the engine to die before the batch starts)
    let hook = std::panic::take_hook();
    std::panic::set_hook(Box::new(|_| {}));
    let _ = std::panic::catch_unwind(warm_up);
    std::panic::set_hook(hook);
    let args: Vec<String> = std::env::args().collect();
    let cmd = args.get(1).map(|s| s.as_str()).unwrap_or("");
    if cmd == "sentinel-sources" {
        // One-off search (about a minute on 16 cores) for source addresses whose TCP-pool dispatch hash
        // (hash_source_ip, 64 bits) has an all-one or all-zero upper or lower half. The hits are kept in
        // /verif/sim/vsim/data/sentinel_sources.json and used as senders in the C18 accounting scenarios: arithmetic
        // that maps the hash onto a worker index meets its range ends there, once in 2^32 addresses.
        use std::sync::{Arc, Mutex};
        let per_thread: u64 = args.get(2).and_then(|x| x.parse().ok()).unwrap_or(1u64 << 30);
        let hits: Arc<Mutex<Vec<String>>> = Arc::new(Mutex::new(vec![]));
        let mut hs = vec![];
        for t in 0..16u16 {
            let hits = hits.clone();
            hs.push(std::thread::spawn(move || {
                // a raw IPv6 packet: version nibble 6, source address at bytes 8..24
                let mut f = vec![0u8; 60];
                f[0] = 0x60;
                f[6] = 6;
                f[7] = 64;
                f[8..12].copy_from_slice(&[0x20, 0x01, 0x0d, 0xb8]);
                f[15] = t as u8;
                for x in 0..per_thread {
                    f[16..24].copy_from_slice(&x.to_be_bytes());
                    let h = huginn_net_tcp::packet_hash::hash_source_ip(&f) as u64;
                    let (hi, lo) = ((h >> 32) as u32, h as u32);
                    let class = if hi == u32::MAX { "hi32_ones" } else if hi == 0 { "hi32_zero" } else if lo == u32::MAX { "lo32_ones" } else if lo == 0 { "lo32_zero" } else { continue };
                    let mut a = [0u8; 16];
                    a.copy_from_slice(&f[8..24]);
                    hits.lock().unwrap().push(format!("  {{\"class\": \"{}\", \"addr\": \"{}\", \"hash\": \"{:016x}\"}}", class, std::net::Ipv6Addr::from(a), h));
                }
            }));
        }
        for h in hs {
            let _ = h.join();
        }
        let mut v = hits.lock().unwrap().clone();
        v.sort();
        println!("[\n{}\n]", v.join(",\n"));
        return;
    }
    if cmd == "sentinels" {
        // One-off search (minutes on 16 cores) for connections whose dispatch hash takes a sentinel-looking value:
        // low 32 bits all zero or all one. hash_flow(frame, 2^32) is the hash's low half. The hits are kept in
        // /verif/sim/vsim/data/sentinel_flows.json and fed to the affinity check: code that uses such a value to
        // mean "no flow" meets a real connection there once in 2^32, never in a random sample.
        use std::sync::atomic::{AtomicBool, AtomicU64, Ordering};
        use std::sync::{Arc, Mutex};
        let want: u64 = args.get(2).and_then(|x| x.parse().ok()).unwrap_or(3);
        let hits: Arc<Mutex<Vec<String>>> = Arc::new(Mutex::new(vec![]));
        let done = Arc::new(AtomicBool::new(false));
        let tried = Arc::new(AtomicU64::new(0));
        let mut hs = vec![];
        for t in 0..16u32 {
            let (hits, done, tried) = (hits.clone(), done.clone(), tried.clone());
            hs.push(std::thread::spawn(move || {
                let h = gen::tcp::Host { profile: 0, ts_hz: 0, ts_base: 0, ttl: 64 };
                let seg = gen::tcp::data(&h, pkt::Endpoint::v4(10, 0, 0, 1, 40000), pkt::Endpoint::v4(203, 0, 113, 5, 80), 1, 1, vec![], 0, 0, pkt::ACK);
                let mut f = pkt::frame(&seg, pkt::Framing::Ethernet);
                let mut x: u32 = t.wrapping_mul(0x1000_0000);
                let mut n = 0u64;
                // each thread owns 2^28 values of x per sweep; three sweeps with different server ports
                while !done.load(Ordering::Relaxed) && n < (10u64 << 28) {
                    let sport: u16 = [80u16, 8080, 443, 8000, 3128, 8443, 81, 8081, 8888, 5000][(n >> 28) as usize % 10];
                    f[36] = (sport >> 8) as u8;
                    f[37] = sport as u8;
                    // source address 10.x.y.z, source port from the upper bits
                    f[27] = (x >> 16) as u8;
                    f[28] = (x >> 8) as u8;
                    f[29] = x as u8;
                    let port = 1024 + ((x >> 24) as u16) * 13;
                    f[34] = (port >> 8) as u8;
                    f[35] = port as u8;
                    for name in ["http", "tls"] {
                        let w = if name == "http" { Some(huginn_net_http::packet_hash::hash_flow(&f, 1usize << 32)) } else { huginn_net_tls::packet_hash::hash_flow(&f, 1usize << 32) };
                        if let Some(w) = w {
                            if w == 0 || w == 0xffff_ffff {
                                hits.lock().unwrap().push(format!("{{\"pool\": \"{}\", \"low32\": {}, \"client\": \"10.{}.{}.{}:{}\", \"server\": \"203.0.113.5:{}\"}}", name, w, f[27], f[28], f[29], port, sport));
                            }
                        }
                    }
                    x = x.wrapping_add(1);
                    n += 1;
                    if n % (1 << 20) == 0 {
                        tried.fetch_add(1 << 20, Ordering::Relaxed);
                        if hits.lock().unwrap().len() as u64 >= want {
                            done.store(true, Ordering::Relaxed);
                        }
                    }
                }
            }));
        }
        for h in hs {
            let _ = h.join();
        }
        println!("[");
        let v = hits.lock().unwrap();
        for (i, l) in v.iter().enumerate() {
            println!("  {}{}", l, if i + 1 < v.len() { "," } else { "" });
        }
        println!("]");
        eprintln!("tried {} candidates", tried.load(Ordering::Relaxed));
        return;
    }
    if cmd == "dbvariants" {
        // diagnosis aid: which rewrites of the signature database does the loader accept?
        for v in 1..=sut::DB_VARIANTS {
            let t = sut::db_text_variant(v);
            match t.parse::<huginn_net_db::Database>() {
                Ok(_) => println!("variant {}: loads ({} bytes)", v, t.len()),
                Err(e) => println!("variant {}: REJECTED: {}", v, e),
            }
        }
        // and what do requests written from signatures get under rewrite 1?
        #[cfg(not(huginn_net_verif_sched))]
        {
            use pkt::{Endpoint, Framing};
            huginn_net_verif_rt::clock::arm(1_700_000_000_000);
            sut::set_db_variant(1);
            let mut r = rng::Rng::new(7);
            for i in 0..400u16 {
                let Some(m) = gen::http1::request_from_signature(&mut r) else { continue };
                let mut s = sut::Sut::new(&sut::SutCfg::new(sut::Kind::Http, 16)).expect("sut");
                let h = gen::tcp::Host { profile: 0, ts_hz: 1000, ts_base: 1, ttl: 64 };
                let (c, sv) = (Endpoint::v4(10, 9, 9, 1, 40000 + i), Endpoint::v4(10, 9, 9, 2, 80));
                let _ = s.deliver(&pkt::frame(&gen::tcp::syn(&h, c, sv, 1000, 0), Framing::Ethernet));
                let o = s.deliver(&pkt::frame(&gen::tcp::data(&h, c, sv, 1001, 1, m.bytes.clone(), 0, 0, pkt::ACK | pkt::PSH), Framing::Ethernet));
                println!("--- {}", String::from_utf8_lossy(&m.bytes).replace("\r\n", " | "));
                for ob in o.obs {
                    let t = ob.text;
                    let d = t.find("diagnosis").map(|p| t[p..].chars().take(140).collect::<String>()).unwrap_or_default();
                    println!("    {}", d);
                }
            }
        }
        return;
    }
    let mut tier = match std::env::var("VERIF_TIER").as_deref() {
        Ok("thorough") => Tier::Thorough,
        _ => Tier::Quick,
    };
    let mut seed: u64 = std::env::var("VERIF_SEED").ok().and_then(|s| s.parse().ok()).unwrap_or(20260926);
    let mut jobs: usize = std::env::var("VERIF_JOBS").ok().and_then(|s| s.parse().ok()).unwrap_or_else(|| std::thread::available_parallelism().map(|n| n.get()).unwrap_or(4));
    let mut evidence = None;
    let mut out_dir = format!("{}/out/replays", runner::verif_root());
    let mut runs_override = None;
    let mut budget_s = std::env::var("VERIF_BUDGET_S").ok().and_then(|s| s.parse().ok());
    let mut index: Option<u64> = None;
    let mut i = 3;
    while i < args.len() {
        let a = args[i].as_str();
        let val = args.get(i + 1).cloned().unwrap_or_default();
        match a {
            "--tier" => {
                tier = if val == "thorough" { Tier::Thorough } else { Tier::Quick };
                i += 1;
            }
            "--seed" => {
                seed = val.parse().unwrap_or(seed);
                i += 1;
            }
            "--jobs" => {
                jobs = val.parse().unwrap_or(jobs);
                i += 1;
            }
            "--evidence" => {
                evidence = Some(val);
                i += 1;
            }
            "--out" => {
                out_dir = val;
                i += 1;
            }
            "--runs" => {
                runs_override = val.parse().ok();
                i += 1;
            }
            "--budget" => {
                budget_s = val.parse().ok();
                i += 1;
            }
            "--index" => {
                index = val.parse().ok();
                i += 1;
            }
            _ => {
                eprintln!("unknown argument {}", a);
                std::process::exit(2);
            }
        }
        i += 1;
    }
    let jobs = jobs.max(1);
    match cmd {
        "emit" => {
            // write the replay file of run INDEX of a batch without running it (used when a batch process died:
            // the runs that were in flight are replayed one by one in processes of their own)
            let id = args.get(2).cloned().unwrap_or_default();
            let o = Opts { tier, seed, jobs, evidence, out_dir, runs_override, hashes_only: false, budget_s };
            match dispatch_emit(&id, &o, index.unwrap_or(0)) {
                Some(c) => std::process::exit(c),
                None => std::process::exit(2),
            }
        }
        "list" => {
            macro_rules! show {
                ($t:ty) => {
                    println!("{} {}", <$t as Prop>::ID, <$t as Prop>::ENGINE);
                };
            }
            for_props!(show);
            let _ = engine();
        }
        "run" | "hashes" => {
            let id = args.get(2).cloned().unwrap_or_default();
            let o = Opts { tier, seed, jobs, evidence, out_dir, runs_override, hashes_only: cmd == "hashes", budget_s };
            match dispatch_run(&id, &o) {
                Some(c) => std::process::exit(c),
                None => {
                    eprintln!("property {} is not served by the {} engine", id, engine());
                    std::process::exit(2);
                }
            }
        }
        "replay" => {
            let path = args.get(2).cloned().unwrap_or_default();
            let s = match std::fs::read_to_string(&path) {
                Ok(s) => s,
                Err(e) => {
                    eprintln!("cannot read {}: {}", path, e);
                    std::process::exit(2);
                }
            };
            let rf: ReplayFile = match serde_json::from_str(&s) {
                Ok(r) => r,
                Err(e) => {
                    eprintln!("cannot parse {}: {}", path, e);
                    std::process::exit(2);
                }
            };
            match dispatch_replay(&path, &rf) {
                Some(c) => std::process::exit(c),
                None => {
                    eprintln!("replay file is for property {} engine {}, not served by this ({}) build", rf.property, rf.engine, engine());
                    std::process::exit(3);
                }
            }
        }
        _ => {
            eprintln!("usage: vsim run|hashes <PROP> [opts] | replay <FILE> | list");
            std::process::exit(2);
        }
    }
}
