fn main() {
    huginn_net_verif_rt::clock::arm(1_700_000_000_000);
    let db = huginn_net_db::Database::load_default().unwrap();
    println!("db ok {}", db.tcp_request.entries.len());
    #[cfg(huginn_net_verif_sched)]
    println!("sched build");
}
