//! TLS record encoder for the simulated clients: ClientHello records of any size up to the
//! 64 KiB bound, and the records that may follow or replace one (ChangeCipherSpec, a handshake
//! record that is not a ClientHello, application data, alerts).

use crate::rng::Rng;

pub const GREASE: [u16; 16] = [
    0x0a0a, 0x1a1a, 0x2a2a, 0x3a3a, 0x4a4a, 0x5a5a, 0x6a6a, 0x7a7a, 0x8a8a, 0x9a9a, 0xaaaa, 0xbaba, 0xcaca, 0xdada, 0xeaea, 0xfafa,
];

const CIPHERS: [u16; 24] = [
    0x1301, 0x1302, 0x1303, 0xc02b, 0xc02f, 0xc02c, 0xc030, 0xcca9, 0xcca8, 0xc013, 0xc014, 0x009c, 0x009d, 0x002f, 0x0035, 0x000a, 0xc009, 0xc00a,
    0x0033, 0x0039, 0x003c, 0x003d, 0x00ff, 0x5600,
];

fn put16(v: &mut Vec<u8>, x: usize) {
    v.push((x >> 8) as u8);
    v.push(x as u8);
}

fn ext(v: &mut Vec<u8>, ty: u16, body: &[u8]) {
    put16(v, ty as usize);
    put16(v, body.len());
    v.extend_from_slice(body);
}

#[derive(Clone, Debug)]
pub struct HelloSpec {
    pub record_version: u16,
    pub legacy_version: u16,
    pub n_ciphers: usize,
    pub n_ext_extra: usize,
    pub sni: Option<String>,
    pub alpn: Vec<String>,
    pub supported_versions: bool,
    pub grease: bool,
    /// pad the extensions block so the whole record is about this long (0 = no padding)
    pub target_len: usize,
    /// handshake messages coalesced into the same record ahead of the ClientHello (RFC 5246 6.2.1 allows
    /// several messages of one content type per record): this many empty HelloRequest messages
    pub coalesced_before: usize,
    /// make the record body (the bytes after the 5-byte record header) exactly this long, if reachable by padding
    pub exact_body: Option<usize>,
}

pub fn random_spec(r: &mut Rng, max_len: usize) -> HelloSpec {
    let target_len = match r.below(10) {
        0..=4 => 0,
        5..=6 => r.urange(300, 1500.min(max_len)),
        7 => r.urange(1500.min(max_len), 5000.min(max_len)),
        8 => r.urange(5000.min(max_len), 17000.min(max_len)),
        _ => r.urange(17000.min(max_len), max_len),
    };
    HelloSpec {
        record_version: *r.pick(&[0x0301u16, 0x0301, 0x0303, 0x0300, 0x0302, 0x0304]),
        legacy_version: *r.pick(&[0x0303u16, 0x0303, 0x0301, 0x0302, 0x0300, 0x0304]),
        n_ciphers: match r.below(8) {
            0 => 0,
            1 => 1,
            7 => r.urange(60, 120),
            _ => r.urange(2, 30),
        },
        n_ext_extra: r.urange(0, 12),
        sni: if r.chance(3, 4) { Some(format!("host{}.example{}.test", r.below(1000), r.below(10))) } else { None },
        alpn: match r.below(4) {
            0 => vec![],
            1 => vec!["h2".into(), "http/1.1".into()],
            2 => vec!["http/1.1".into()],
            _ => vec![format!("x{}", r.below(100))],
        },
        supported_versions: r.chance(2, 3),
        grease: r.chance(1, 2),
        target_len,
        coalesced_before: if r.chance(1, 12) { r.urange(1, 3) } else { 0 },
        exact_body: None,
    }
}

/// Encode a ClientHello as one TLS record. Returns the record bytes (5-byte header included).
/// The smallest ClientHellos a parser accepts: no session id, no extension block, one cipher suite or none, null
/// compression or an empty list - 47..50 bytes on the wire, below what a conforming client sends but well-formed
pub fn tiny_hello(r: &mut Rng) -> Vec<u8> {
    let mut body = Vec::new();
    put16(&mut body, *r.pick(&[0x0303usize, 0x0301]));
    body.extend_from_slice(&r.bytes(32));
    body.push(0);
    if r.chance(1, 2) {
        put16(&mut body, 2);
        put16(&mut body, *r.pick(&CIPHERS) as usize);
    } else {
        put16(&mut body, 0);
    }
    if r.chance(1, 2) {
        body.push(1);
        body.push(0);
    } else {
        body.push(0);
    }
    let mut hs = vec![1u8, 0];
    put16(&mut hs, body.len());
    hs.extend_from_slice(&body);
    record(0x16, *r.pick(&[0x0301u16, 0x0303]), &hs)
}

pub fn client_hello(r: &mut Rng, s: &HelloSpec) -> Vec<u8> {
    let mut body = Vec::new();
    put16(&mut body, s.legacy_version as usize);
    body.extend_from_slice(&r.bytes(32));
    let sid = if r.chance(1, 2) { 32 } else { 0 };
    body.push(sid as u8);
    body.extend_from_slice(&r.bytes(sid));
    // cipher suites
    let mut cs: Vec<u16> = vec![];
    if s.grease {
        cs.push(*r.pick(&GREASE));
    }
    for _ in 0..s.n_ciphers {
        cs.push(if r.chance(9, 10) { *r.pick(&CIPHERS) } else { r.u16() });
    }
    put16(&mut body, cs.len() * 2);
    for c in &cs {
        put16(&mut body, *c as usize);
    }
    body.push(1);
    body.push(0);
    // extensions
    let mut exts: Vec<Vec<u8>> = vec![];
    if s.grease {
        let mut e = vec![];
        ext(&mut e, *r.pick(&GREASE), &[]);
        exts.push(e);
    }
    if let Some(h) = &s.sni {
        let mut b = vec![];
        put16(&mut b, h.len() + 3);
        b.push(0);
        put16(&mut b, h.len());
        b.extend_from_slice(h.as_bytes());
        let mut e = vec![];
        ext(&mut e, 0, &b);
        exts.push(e);
    }
    if !s.alpn.is_empty() {
        let mut l = vec![];
        for p in &s.alpn {
            l.push(p.len() as u8);
            l.extend_from_slice(p.as_bytes());
        }
        let mut b = vec![];
        put16(&mut b, l.len());
        b.extend_from_slice(&l);
        let mut e = vec![];
        ext(&mut e, 16, &b);
        exts.push(e);
    }
    if s.supported_versions {
        let mut vs: Vec<u16> = vec![];
        if s.grease {
            vs.push(*r.pick(&GREASE));
        }
        vs.push(0x0304);
        if r.chance(1, 2) {
            vs.push(0x0303);
        }
        let mut b = vec![(vs.len() * 2) as u8];
        for v in vs {
            put16(&mut b, v as usize);
        }
        let mut e = vec![];
        ext(&mut e, 43, &b);
        exts.push(e);
    }
    for _ in 0..s.n_ext_extra {
        let mut e = vec![];
        match r.below(9) {
            0 => {
                // signature_algorithms
                let n = r.urange(1, 10);
                let mut b = vec![];
                put16(&mut b, n * 2);
                for _ in 0..n {
                    put16(&mut b, *r.pick(&[0x0403usize, 0x0804, 0x0401, 0x0503, 0x0805, 0x0501, 0x0806, 0x0601, 0x0201]));
                }
                ext(&mut e, 13, &b);
            }
            1 => {
                let n = r.urange(1, 6);
                let mut b = vec![];
                put16(&mut b, n * 2);
                for _ in 0..n {
                    put16(&mut b, *r.pick(&[0x001dusize, 0x0017, 0x0018, 0x0019, 0x0100, 0x6399]));
                }
                ext(&mut e, 10, &b);
            }
            2 => ext(&mut e, 11, &[1, 0]),
            3 => ext(&mut e, 35, &[]),
            4 => ext(&mut e, 23, &[]),
            5 => ext(&mut e, 0xff01, &[0]),
            6 => {
                // key_share
                let kx = r.bytes(32);
                let mut b = vec![];
                put16(&mut b, kx.len() + 4);
                put16(&mut b, 0x001d);
                put16(&mut b, kx.len());
                b.extend_from_slice(&kx);
                ext(&mut e, 51, &b);
            }
            7 => ext(&mut e, 5, &[1, 0, 0, 0, 0]),
            _ => {
                let n = r.urange(0, 40);
                let ty = 0x4000 + r.below(0x1000) as u16;
                ext(&mut e, ty, &r.bytes(n));
            }
        }
        exts.push(e);
    }
    if r.chance(1, 3) {
        r.shuffle(&mut exts);
    }
    let mut eb: Vec<u8> = exts.concat();
    // padding extension(s) to reach the target size
    let fixed = 5 + 4 + body.len() + 2;
    if s.target_len > fixed + eb.len() + 4 {
        let mut need = s.target_len - fixed - eb.len();
        while need > 4 {
            let n = (need - 4).min(65000);
            let mut e = vec![];
            ext(&mut e, 21, &vec![0u8; n]);
            eb.extend_from_slice(&e);
            need -= n + 4;
            if eb.len() > 65000 {
                break;
            }
        }
    }
    // exact size: one more padding extension of exactly the missing length (its own 4 header bytes included)
    if let Some(want) = s.exact_body {
        let have = 4 * s.coalesced_before + 4 + body.len() + 2 + eb.len();
        if want >= have + 4 {
            let n = want - have - 4;
            let mut e = vec![];
            ext(&mut e, 21, &vec![0u8; n]);
            eb.extend_from_slice(&e);
        }
    }
    // clamp so that the record length fits 16 bits
    let max_eb = 65535usize.saturating_sub(4 + body.len() + 2 + 4 * s.coalesced_before);
    if eb.len() > max_eb {
        eb.truncate(0);
    }
    put16(&mut body, eb.len());
    body.extend_from_slice(&eb);

    let mut hs = vec![];
    for _ in 0..s.coalesced_before {
        hs.extend_from_slice(&[0u8, 0, 0, 0]);
    }
    hs.push(1u8);
    hs.push((body.len() >> 16) as u8);
    hs.push((body.len() >> 8) as u8);
    hs.push(body.len() as u8);
    hs.extend_from_slice(&body);

    let mut rec = vec![0x16];
    put16(&mut rec, s.record_version as usize);
    put16(&mut rec, hs.len());
    rec.extend_from_slice(&hs);
    rec
}

/// A handshake record that is *not* a ClientHello (ServerHello-shaped, or ClientKeyExchange).
pub fn non_hello_handshake(r: &mut Rng) -> Vec<u8> {
    let ty = *r.pick(&[2u8, 16, 11, 14, 4]);
    let n = r.urange(4, 200);
    let mut hs = vec![ty, 0, (n >> 8) as u8, n as u8];
    if ty == 2 {
        // ServerHello: version, random, sid len 0, cipher, compression — then opaque filler
        let mut b = vec![3, 3];
        b.extend_from_slice(&r.bytes(32));
        b.push(0);
        b.extend_from_slice(&[0x13, 0x01, 0]);
        let n = b.len();
        hs = vec![2, 0, (n >> 8) as u8, n as u8];
        hs.extend_from_slice(&b);
    } else {
        hs.extend_from_slice(&r.bytes(n));
    }
    let mut rec = vec![0x16, 3, 3];
    put16(&mut rec, hs.len());
    rec.extend_from_slice(&hs);
    rec
}

pub fn record(ct: u8, ver: u16, body: &[u8]) -> Vec<u8> {
    let mut rec = vec![ct];
    put16(&mut rec, ver as usize);
    put16(&mut rec, body.len());
    rec.extend_from_slice(body);
    rec
}

/// Bytes a client may send after its ClientHello: CCS, a non-hello handshake record, app data.
pub fn trailing(r: &mut Rng) -> Vec<u8> {
    trailing_opt(r, false)
}

/// `second_hello`: one tail in eight holds a second ClientHello (what a client sends after a
/// HelloRetryRequest), alone or after a CCS. Only for streams that begin with a ClientHello.
pub fn trailing_opt(r: &mut Rng, second_hello: bool) -> Vec<u8> {
    let mut v = vec![];
    if second_hello && r.chance(1, 8) {
        if r.chance(1, 2) {
            v.extend_from_slice(&record(0x14, 0x0303, &[1]));
        }
        let spec = random_spec(r, 700);
        let spec = HelloSpec { coalesced_before: 0, ..spec };
        v.extend_from_slice(&client_hello(r, &spec));
        return v;
    }
    // one tail in six is large (coalesced early data / a burst of application records)
    if r.chance(1, 6) {
        for _ in 0..r.urange(1, 4) {
            let n = r.urange(1000, 6000);
            v.extend_from_slice(&record(0x17, 0x0303, &r.bytes(n)));
        }
        return v;
    }
    let n = r.below(4);
    for _ in 0..n {
        match r.below(4) {
            0 => v.extend_from_slice(&record(0x14, 0x0303, &[1])),
            1 => v.extend_from_slice(&non_hello_handshake(r)),
            2 => {
                let n = r.urange(1, 300);
                v.extend_from_slice(&record(0x17, 0x0303, &r.bytes(n)))
            }
            _ => v.extend_from_slice(&record(0x15, 0x0303, &[2, 40])),
        }
    }
    v
}

/// Degenerate record streams: well-framed records whose body is shorter than anything a parser expects
/// (empty, 1..4 bytes, a handshake header announcing nothing), of any content type, alone or back to back.
pub fn degenerate(r: &mut Rng) -> Vec<u8> {
    const BODIES: [&[u8]; 10] = [&[], &[], &[1], &[1, 0], &[1, 0, 0], &[1, 0, 0, 0], &[1, 0, 0, 5], &[0, 0, 0, 0], &[2, 0, 0, 0], &[1, 0, 0, 2, 3, 3]];
    let mut v = vec![];
    for _ in 0..r.urange(1, 3) {
        let ct = *r.pick(&[0x16u8, 0x16, 0x16, 0x14, 0x15, 0x17, 0x18]);
        let ver = *r.pick(&[0x0301u16, 0x0303, 0x0300, 0x0304]);
        let body: &[u8] = BODIES[r.usize_below(BODIES.len())];
        v.extend_from_slice(&record(ct, ver, body));
    }
    v
}

/// A complete, well-formed ClientHello record made only of bytes that may appear inside an HTTP/1 header
/// value: every byte below 0x80 and none of them CR or LF. (Planted look-alike for the HTTP side: bytes
/// that are at once part of an HTTP head and a parseable TLS record.)
pub fn ascii_client_hello(r: &mut Rng) -> Option<Vec<u8>> {
    const A: &[u8] = b"abcdefghijklmnopqrstuvwxyzABCDEFGHIJKLMNOPQRSTUVWXYZ0123456789";
    const SUITES: [u16; 10] = [0x1301, 0x1302, 0x1303, 0x002f, 0x0035, 0x003c, 0x003d, 0x0033, 0x0039, 0x0016];
    for _ in 0..60 {
        let txt = |r: &mut Rng, n: usize| -> Vec<u8> { (0..n).map(|_| A[r.usize_below(A.len())]).collect() };
        let mut body = vec![3u8, 3];
        body.extend_from_slice(&txt(r, 32));
        if r.chance(1, 2) {
            body.push(32);
            body.extend_from_slice(&txt(r, 32));
        } else {
            body.push(0);
        }
        let n = r.urange(1, 6);
        put16(&mut body, 2 * n);
        for _ in 0..n {
            put16(&mut body, *r.pick(&SUITES) as usize);
        }
        body.push(1);
        body.push(0);
        let mut eb = vec![];
        if r.chance(3, 4) {
            let hl = r.urange(4, 20);
            let h = txt(r, hl);
            let mut b = vec![];
            put16(&mut b, h.len() + 3);
            b.push(0);
            put16(&mut b, h.len());
            b.extend_from_slice(&h);
            ext(&mut eb, 0, &b);
        }
        if r.chance(1, 2) {
            ext(&mut eb, 16, &[0, 3, 2, b'h', b'2']);
        }
        if r.chance(1, 2) {
            ext(&mut eb, 43, &[2, 3, 4]);
        }
        if r.chance(1, 2) {
            ext(&mut eb, 0x23, &[]);
        }
        if r.chance(1, 2) {
            ext(&mut eb, 0x17, &[]);
        }
        if r.chance(1, 3) {
            let kx = txt(r, 32);
            let mut b = vec![];
            put16(&mut b, kx.len() + 4);
            put16(&mut b, 0x001d);
            put16(&mut b, kx.len());
            b.extend_from_slice(&kx);
            ext(&mut eb, 51, &b);
        }
        put16(&mut body, eb.len());
        body.extend_from_slice(&eb);
        let mut hs = vec![1u8, 0];
        put16(&mut hs, body.len());
        hs.extend_from_slice(&body);
        let mut rec = vec![0x16, 3, *r.pick(&[1u8, 3])];
        put16(&mut rec, hs.len());
        rec.extend_from_slice(&hs);
        if rec.iter().all(|b| *b < 0x80 && *b != b'\r' && *b != b'\n') {
            return Some(rec);
        }
    }
    None
}
