//! HTTP/1.x message generator (RFC 7230 grammar, CRLF line ends), keeping where the head ends.

use crate::rng::Rng;

pub struct Msg {
    pub bytes: Vec<u8>,
    /// length of the head including the terminating blank line
    pub head_len: usize,
}

const METHODS: [&str; 8] = ["GET", "POST", "HEAD", "PUT", "DELETE", "OPTIONS", "PATCH", "PROPFIND"];
const UAS: [&str; 6] = [
    "Mozilla/5.0 (X11; Linux x86_64; rv:109.0) Gecko/20100101 Firefox/115.0",
    "Mozilla/5.0 (Windows NT 10.0; Win64; x64) AppleWebKit/537.36 (KHTML, like Gecko) Chrome/120.0.0.0 Safari/537.36",
    "curl/8.4.0",
    "Wget/1.21.3",
    "Mozilla/4.0 (compatible; MSIE 8.0; Windows NT 6.1)",
    "python-requests/2.31.0",
];
const LANGS: [&str; 5] = ["en-US,en;q=0.9", "de-DE,de;q=0.8,en;q=0.5", "fr", "es-ES;q=0.7,en;q=0.9", "ja,en;q=0.1"];
const SERVERS: [&str; 5] = ["Apache/2.4.57 (Debian)", "nginx/1.24.0", "Microsoft-IIS/10.0", "lighttpd/1.4.69", "cloudflare"];

/// An Accept-Language value. Mostly one of a few ordinary ones; one in six is a long list (up to 48 entries)
/// with every spelling of a quality value a client can put on the wire, including ones that parse as
/// non-finite numbers or do not parse at all.
pub fn accept_language(r: &mut Rng) -> String {
    if !r.chance(1, 6) {
        return r.pick(&LANGS).to_string();
    }
    const TAGS: [&str; 28] = [
        "en", "en-US", "en-GB", "de", "de-DE", "fr", "fr-FR", "es", "es-ES", "it", "pt", "pt-BR", "nl", "sv", "da", "fi", "pl", "ru", "ja", "ko", "zh", "zh-CN", "zh-TW", "ar", "he", "tr", "cs", "*",
    ];
    const QS: [&str; 24] = ["1", "1.0", "0.9", "0.8", "0.7", "0.5", "0.3", "0.1", "0", "0.000", "0.95", "1.000", "NaN", "nan", "inf", "-inf", "-1", "1e3", "1e-40", "", "abc", ".5", "\u{e9}", "0.\u{130}"];
    let n = if r.chance(1, 2) { r.urange(21, 48) } else { r.urange(1, 20) };
    let mut parts = vec![];
    // letters whose lower- or upper-case form has another byte length (dotted capital I, the Kelvin and Angstrom
    // signs, capital sharp s, ...) and other case-mapping oddities: language tags are case-insensitive, so code
    // that folds case meets them
    const ODD: [&str; 12] = ["\u{130}", "\u{130}\u{130}", "tr-\u{130}", "\u{212a}\u{212a}", "\u{212a}", "\u{212b}", "\u{23a}\u{23a}", "\u{23e}", "\u{1e9e}", "\u{2126}x", "\u{df}", "\u{fb03}"];
    let odd = r.chance(1, 4);
    for _ in 0..n {
        let t = if odd && r.chance(1, 3) { *r.pick(&ODD) } else { *r.pick(&TAGS) };
        parts.push(match r.below(8) {
            0 => t.to_string(),
            1 => format!("{}; q={}", t, r.pick(&QS)),
            2 => format!("{};q={};x=1", t, r.pick(&QS)),
            _ => format!("{};q={}", t, r.pick(&QS)),
        });
    }
    parts.join(if r.chance(1, 2) { "," } else { ", " })
}

fn token(r: &mut Rng, n: usize) -> String {
    const A: &[u8] = b"abcdefghijklmnopqrstuvwxyz0123456789";
    (0..n).map(|_| A[r.usize_below(A.len())] as char).collect()
}

pub fn body(r: &mut Rng, max: usize) -> Vec<u8> {
    match r.below(5) {
        0 => vec![],
        1 => format!("{{\"k\":\"{}\"}}", token(r, 10)).into_bytes(),
        2 => {
            // text with line breaks and header-looking lines
            let mut b = String::new();
            for _ in 0..r.urange(1, 8) {
                b.push_str(&format!("X-Body-{}: {}\r\n", token(r, 4), token(r, 8)));
                if r.chance(1, 3) {
                    b.push_str("\r\n");
                }
            }
            b.into_bytes()
        }
        3 => {
            // arbitrary binary (not valid UTF-8 with overwhelming probability)
            let n = r.urange(1, max.max(2));
            let mut v = r.bytes(n);
            v[0] = 0xff;
            v
        }
        _ => {
            let n = r.urange(1, max.max(2));
            (0..n).map(|i| b'a' + (i % 26) as u8).collect()
        }
    }
}

pub fn request(r: &mut Rng, max_body: usize) -> Msg {
    let method = *r.pick(&METHODS);
    let uri = match r.below(4) {
        0 => "/".to_string(),
        1 => format!("/{}/{}.html", token(r, 5), token(r, 7)),
        2 => format!("/search?q={}&lang=en", token(r, 6)),
        _ => format!("/{}", { let n = r.urange(1, 60); token(r, n) }),
    };
    let ver = if r.chance(1, 5) { "HTTP/1.0" } else { "HTTP/1.1" };
    let mut h = format!("{} {} {}\r\n", method, uri, ver);
    let mut lines: Vec<String> = vec![format!("Host: {}.example.test", token(r, 6))];
    if r.chance(5, 6) {
        lines.push(format!("User-Agent: {}", r.pick(&UAS)));
    }
    if r.chance(3, 4) {
        lines.push("Accept: text/html,application/xhtml+xml,*/*;q=0.8".to_string());
    }
    if r.chance(2, 3) {
        lines.push(format!("Accept-Language: {}", accept_language(r)));
    }
    if r.chance(2, 3) {
        lines.push("Accept-Encoding: gzip, deflate".to_string());
    }
    if r.chance(1, 2) {
        lines.push(format!("Connection: {}", r.pick(&["keep-alive", "close", "Keep-Alive"])));
    }
    if r.chance(1, 3) {
        lines.push(format!("Cookie: sid={}; theme={}", token(r, 12), token(r, 4)));
    }
    if r.chance(1, 4) {
        lines.push(format!("Referer: http://{}.example.test/{}", token(r, 5), token(r, 5)));
    }
    if r.chance(1, 5) {
        lines.push(format!("X-Note: caf\u{e9} \u{2603} {}", token(r, 3)));
    }
    for _ in 0..r.below(4) {
        lines.push(format!("X-{}: {}", token(r, 5), { let n = r.urange(1, 30); token(r, n) }));
    }
    if r.chance(1, 3) {
        let (a, b) = lines.split_at_mut(1);
        r.shuffle(b);
        let _ = a;
    }
    let b = if matches!(method, "POST" | "PUT" | "PATCH") || r.chance(1, 6) { body(r, max_body) } else { vec![] };
    if !b.is_empty() {
        lines.push(format!("Content-Length: {}", b.len()));
    }
    for l in &lines {
        h.push_str(l);
        h.push_str("\r\n");
    }
    h.push_str("\r\n");
    let head_len = h.len();
    let mut bytes = h.into_bytes();
    bytes.extend_from_slice(&b);
    Msg { bytes, head_len }
}

pub fn response(r: &mut Rng, max_body: usize) -> Msg {
    // one response in eight is preceded by an interim "100 Continue" head in the same direction: the
    // stream then *starts* with that head, and it is the one whose report must not depend on delivery
    if r.chance(1, 8) {
        let interim = b"HTTP/1.1 100 Continue\r\n\r\n".to_vec();
        let fin = response_plain(r, max_body);
        let mut bytes = interim.clone();
        bytes.extend_from_slice(&fin.bytes);
        return Msg { bytes, head_len: interim.len() };
    }
    response_plain(r, max_body)
}

fn response_plain(r: &mut Rng, max_body: usize) -> Msg {
    let ver = if r.chance(1, 6) { "HTTP/1.0" } else { "HTTP/1.1" };
    let (code, reason) = *r.pick(&[(200, "OK"), (404, "Not Found"), (301, "Moved Permanently"), (500, "Internal Server Error"), (204, "No Content"), (304, "Not Modified")]);
    let mut h = format!("{} {} {}\r\n", ver, code, reason);
    let mut lines: Vec<String> = vec![];
    if r.chance(5, 6) {
        lines.push(format!("Server: {}", r.pick(&SERVERS)));
    }
    if r.chance(3, 4) {
        lines.push("Date: Sat, 26 Sep 2026 12:00:00 GMT".to_string());
    }
    if r.chance(3, 4) {
        lines.push(format!("Content-Type: {}", r.pick(&["text/html; charset=UTF-8", "application/json", "image/png", "application/octet-stream"])));
    }
    if r.chance(1, 2) {
        lines.push(format!("Connection: {}", r.pick(&["keep-alive", "close"])));
    }
    if r.chance(1, 3) {
        lines.push("Accept-Ranges: bytes".to_string());
    }
    if r.chance(1, 4) {
        lines.push(format!("Set-Cookie: sid={}; Path=/", token(r, 10)));
    }
    for _ in 0..r.below(3) {
        lines.push(format!("X-{}: {}", token(r, 5), { let n = r.urange(1, 20); token(r, n) }));
    }
    if r.chance(1, 3) {
        r.shuffle(&mut lines);
    }
    let b = if code == 204 || code == 304 { vec![] } else { body(r, max_body) };
    lines.push(format!("Content-Length: {}", b.len()));
    for l in &lines {
        h.push_str(l);
        h.push_str("\r\n");
    }
    h.push_str("\r\n");
    let head_len = h.len();
    let mut bytes = h.into_bytes();
    bytes.extend_from_slice(&b);
    Msg { bytes, head_len }
}

/// text of about `n` bytes mixing ASCII with 2-, 3- and 4-byte UTF-8 characters at arbitrary offsets
pub fn utf8_text(r: &mut Rng, n: usize, spaces: bool) -> String {
    const WIDE: [&str; 8] = ["\u{e9}", "\u{fc}", "\u{3b1}", "\u{2603}", "\u{4e2d}", "\u{6587}", "\u{1f600}", "\u{df}"];
    let mut s = String::new();
    while s.len() < n {
        match r.below(6) {
            0 | 1 => s.push_str(WIDE[r.usize_below(WIDE.len())]),
            2 if spaces => s.push(' '),
            _ => s.push((b'a' + r.below(26) as u8) as char),
        }
    }
    s
}

/// Legal but unusual heads: very long lines, non-ASCII text at every offset, lines without a colon,
/// many tokens in the start line. (Reason phrases, header values and, in practice, targets may carry
/// non-ASCII bytes.)
pub fn exotic_request(r: &mut Rng) -> Msg {
    let tn = r.urange(1, 400);
    let target = format!("/{}", utf8_text(r, tn, false));
    let mut h = format!("{} {} HTTP/1.1\r\n", r.pick(&METHODS), target);
    h.push_str(&format!("Host: {}.example.test\r\n", token(r, 5)));
    for _ in 0..r.urange(0, 5) {
        let n = r.urange(1, 300);
        match r.below(3) {
            0 => h.push_str(&format!("X-{}: {}\r\n", token(r, 4), utf8_text(r, n, true))),
            1 => h.push_str(&format!("{}\r\n", utf8_text(r, n, true))), // no colon
            _ => h.push_str(&format!("{}: {}\r\n", utf8_text(r, n.min(60), false), token(r, 5))),
        }
    }
    h.push_str("\r\n");
    let head_len = h.len();
    Msg { bytes: h.into_bytes(), head_len }
}

pub fn exotic_response(r: &mut Rng) -> Msg {
    let n = r.urange(1, 400);
    let sp = r.chance(2, 3);
    let reason = utf8_text(r, n, sp);
    let mut h = format!("HTTP/1.{} {} {}\r\n", r.below(2), r.pick(&[200, 404, 500, 302]), reason);
    let sn = r.urange(1, 200);
    h.push_str(&format!("Server: {}\r\n", utf8_text(r, sn, true)));
    for _ in 0..r.urange(0, 4) {
        let n = r.urange(1, 300);
        h.push_str(&format!("X-{}: {}\r\n", token(r, 4), utf8_text(r, n, true)));
    }
    h.push_str("Content-Length: 0\r\n\r\n");
    let head_len = h.len();
    Msg { bytes: h.into_bytes(), head_len }
}

/// A head that never completes (no blank line), `n` bytes long.
pub fn endless_head(r: &mut Rng, n: usize) -> Vec<u8> {
    let mut s = String::from("GET /never HTTP/1.1\r\nHost: endless.example.test\r\n");
    while s.len() < n {
        s.push_str(&format!("X-{}: {}\r\n", token(r, 6), token(r, 40)));
    }
    s.truncate(n.max(20));
    s.into_bytes()
}

/// A request written to match one `[http:request]` signature of the bundled database: the listed headers in
/// the listed order (optional ones sometimes left out) with the listed value substrings, the expected
/// User-Agent substring, the listed HTTP version. Exercises the matching, label and diagnosis paths, which a
/// random header order almost never reaches.
pub fn request_from_signature(r: &mut Rng) -> Option<Msg> {
    let text = crate::sut::bundled_text();
    let mut sigs: Vec<&str> = vec![];
    let mut inside = false;
    for line in text.lines() {
        let t = line.trim_start();
        if t.starts_with('[') {
            inside = t.starts_with("[http:request]");
        } else if inside && t.starts_with("sig") {
            if let Some(eq) = t.find('=') {
                sigs.push(t[eq + 1..].trim());
            }
        }
    }
    if sigs.is_empty() {
        return None;
    }
    let sig = sigs[r.usize_below(sigs.len())];
    // ver:horder:habsent:expsw  (horder values may contain ':' inside [...])
    let mut fields: Vec<String> = vec![];
    let (mut depth, mut cur) = (0i32, String::new());
    for ch in sig.chars() {
        match ch {
            '[' => {
                depth += 1;
                cur.push(ch);
            }
            ']' => {
                depth -= 1;
                cur.push(ch);
            }
            ':' if depth == 0 && fields.len() < 3 => {
                fields.push(std::mem::take(&mut cur));
            }
            _ => cur.push(ch),
        }
    }
    fields.push(cur);
    if fields.len() != 4 {
        return None;
    }
    let ver = match fields[0].as_str() {
        "0" => "HTTP/1.0",
        "1" => "HTTP/1.1",
        _ => *r.pick(&["HTTP/1.1", "HTTP/1.1", "HTTP/1.0"]),
    };
    let expsw = fields[3].clone();
    // split horder on commas outside brackets
    let mut items: Vec<String> = vec![];
    let (mut depth, mut cur) = (0i32, String::new());
    for ch in fields[1].chars() {
        match ch {
            '[' => {
                depth += 1;
                cur.push(ch);
            }
            ']' => {
                depth -= 1;
                cur.push(ch);
            }
            ',' if depth == 0 => items.push(std::mem::take(&mut cur)),
            _ => cur.push(ch),
        }
    }
    if !cur.is_empty() {
        items.push(cur);
    }
    let mut head = format!("GET /{} {}\r\n", token(r, 6), ver);
    for it in items {
        let (optional, it) = match it.strip_prefix('?') {
            Some(x) => (true, x.to_string()),
            None => (false, it),
        };
        if optional && r.chance(1, 2) {
            continue;
        }
        let (name, want) = match it.find("=[") {
            Some(p) => (it[..p].to_string(), Some(it[p + 2..].trim_end_matches(']').to_string())),
            None => (it.clone(), None),
        };
        let value = if name.eq_ignore_ascii_case("User-Agent") {
            // only the expected substring, or wrapped the way browsers do
            if r.chance(1, 2) { format!("{}1.0", expsw) } else { format!("Mozilla/5.0 (X11; Linux x86_64) {}1.0", expsw) }
        } else if let Some(w) = want {
            if r.chance(1, 2) { w } else { format!("{}{}{}", if r.chance(1, 2) { "text/html" } else { "" }, w, if r.chance(1, 2) { "0.5" } else { "" }) }
        } else if name.eq_ignore_ascii_case("Host") {
            format!("{}.example.test", token(r, 6))
        } else {
            token(r, 6)
        };
        head.push_str(&format!("{}: {}\r\n", name, value));
    }
    head.push_str("\r\n");
    let head_len = head.len();
    Some(Msg { bytes: head.into_bytes(), head_len })
}

/// The same message with bare-LF line ends in its head (some clients and many hand-written tools send them) and a
/// body that contains CRLF CRLF, header-looking lines, or a whole CRLF-terminated message.
pub fn lf_variant(r: &mut Rng, m: Msg) -> Msg {
    let head = String::from_utf8_lossy(&m.bytes[..m.head_len.min(m.bytes.len())]).replace("\r\n", "\n");
    // (a head without any CRLF left: mixed endings are produced by keeping one of them now and then)
    let head = if r.chance(1, 4) { head.replacen('\n', "\r\n", 1) } else { head };
    let mut bytes = head.clone().into_bytes();
    let head_len = bytes.len();
    match r.below(4) {
        0 => bytes.extend_from_slice(b"--boundary\r\nContent-Disposition: form-data; name=\"a\"\r\n\r\nvalue\r\n--boundary--\r\n"),
        1 => bytes.extend_from_slice(b"HTTP/1.1 200 OK\r\nServer: other\r\nContent-Length: 0\r\n\r\n"),
        2 => bytes.extend_from_slice(b"GET /inner HTTP/1.1\r\nHost: inner.example.test\r\nUser-Agent: inner/1.0\r\n\r\n"),
        _ => {
            let n = r.urange(0, 60);
            bytes.extend_from_slice(&body(r, n));
        }
    }
    Msg { bytes, head_len }
}
