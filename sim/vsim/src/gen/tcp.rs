//! Simulated TCP endpoints: OS-like option layouts, timestamp clocks, handshakes.

use crate::pkt::{self, opt, Endpoint, Seg};
use crate::rng::Rng;
use serde::{Deserialize, Serialize};

#[derive(Clone, Debug, Serialize, Deserialize)]
pub struct Host {
    pub profile: usize,
    /// TCP timestamp clock: ticks per second (0 = host does not send timestamps)
    pub ts_hz: u32,
    pub ts_base: u32,
    pub ttl: u8,
}

pub const N_PROFILES: usize = 8;

impl Host {
    pub fn random(r: &mut Rng) -> Host {
        let profile = r.usize_below(N_PROFILES);
        let ts_hz = match profile {
            1 | 5 | 7 => 0,
            _ => *r.pick(&[100u32, 250, 1000, 1000, 200, 10]),
        };
        Host { profile, ts_hz, ts_base: if r.chance(1, 8) { 0xffff_ff00u32.wrapping_add(r.below(512) as u32) } else { r.u32() }, ttl: *r.pick(&[64u8, 64, 128, 255, 57, 113]) }
    }

    pub fn tsval(&self, t_ns: u64) -> u32 {
        let ticks = (t_ns as u128 * self.ts_hz as u128 / 1_000_000_000u128) as u64;
        self.ts_base.wrapping_add(ticks as u32)
    }

    /// option bytes for a SYN / SYN+ACK
    pub fn syn_opts(&self, t_ns: u64, ecr: u32) -> Vec<u8> {
        let ts = opt::ts(self.tsval(t_ns), ecr);
        let mut o = vec![];
        match self.profile {
            0 => {
                // linux: mss,sok,ts,nop,ws
                o.extend(opt::mss(1460));
                o.extend(opt::sackok());
                o.extend(ts);
                o.extend(opt::nop());
                o.extend(opt::ws(7));
            }
            1 => {
                // windows: mss,nop,ws,nop,nop,sok
                o.extend(opt::mss(1460));
                o.extend(opt::nop());
                o.extend(opt::ws(8));
                o.extend(opt::nop());
                o.extend(opt::nop());
                o.extend(opt::sackok());
            }
            2 => {
                // mac os: mss,nop,ws,nop,nop,ts,sok,eol
                o.extend(opt::mss(1460));
                o.extend(opt::nop());
                o.extend(opt::ws(6));
                o.extend(opt::nop());
                o.extend(opt::nop());
                o.extend(ts);
                o.extend(opt::sackok());
                o.extend(opt::eol());
            }
            3 => {
                // freebsd: mss,nop,ws,sok,ts
                o.extend(opt::mss(1460));
                o.extend(opt::nop());
                o.extend(opt::ws(6));
                o.extend(opt::sackok());
                o.extend(ts);
            }
            4 => {
                // small-mtu linux
                o.extend(opt::mss(1400));
                o.extend(opt::sackok());
                o.extend(ts);
                o.extend(opt::nop());
                o.extend(opt::ws(10));
            }
            5 => {
                o.extend(opt::mss(536));
            }
            6 => {
                // a stack that announces no MSS: the handshake carries the same nop,nop,ts as every later segment
                o.extend(opt::nop());
                o.extend(opt::nop());
                o.extend(ts);
            }
            _ => {
                // no options at all
            }
        }
        o
    }

    /// option bytes for a non-SYN segment
    pub fn data_opts(&self, t_ns: u64, ecr: u32) -> Vec<u8> {
        if self.ts_hz == 0 {
            return vec![];
        }
        let mut o = vec![1, 1];
        o.extend(opt::ts(self.tsval(t_ns), ecr));
        o
    }

    pub fn window(&self) -> u16 {
        match self.profile {
            0 => 29200,
            1 => 8192,
            2 | 3 => 65535,
            4 => 28000,
            _ => 4096,
        }
    }

    pub fn stamp(&self, s: &mut Seg, r_id: u16) {
        s.ttl = self.ttl;
        s.window = self.window();
        s.ip_id = if self.profile == 0 || self.profile == 4 { 0 } else { r_id };
        s.df = self.profile != 5;
    }
}

pub fn syn(c: &Host, client: Endpoint, server: Endpoint, isn: u32, t_ns: u64) -> Seg {
    let mut s = Seg::new(client, server);
    s.seq = isn;
    s.flags = pkt::SYN;
    s.tcp_opts = c.syn_opts(t_ns, 0);
    c.stamp(&mut s, 0x1111);
    s
}

pub fn syn_ack(sv: &Host, client: Endpoint, server: Endpoint, isn_s: u32, isn_c: u32, t_ns: u64, ecr: u32) -> Seg {
    let mut s = Seg::new(server, client);
    s.seq = isn_s;
    s.ack = isn_c.wrapping_add(1);
    s.flags = pkt::SYN | pkt::ACK;
    s.tcp_opts = sv.syn_opts(t_ns, ecr);
    sv.stamp(&mut s, 0x2222);
    s
}

pub fn data(h: &Host, from: Endpoint, to: Endpoint, seq: u32, ack: u32, payload: Vec<u8>, t_ns: u64, ecr: u32, flags: u8) -> Seg {
    let mut s = Seg::new(from, to);
    s.seq = seq;
    s.ack = ack;
    s.flags = flags;
    s.payload = payload;
    s.tcp_opts = h.data_opts(t_ns, ecr);
    h.stamp(&mut s, 0x3333);
    s
}
