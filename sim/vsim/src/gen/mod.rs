pub mod tls;
