pub mod http1;
pub mod http2;
pub mod tcp;
pub mod tls;
