//! HTTP/2 connection-start generator: frames + a minimal HPACK *encoder* (static/dynamic indexed,
//! literal with/without/never indexing, size updates; no Huffman), keeping the structure that was
//! encoded so oracles never have to ask the code under test what was sent.

use crate::rng::Rng;
use serde::{Deserialize, Serialize};

pub const PREFACE: &[u8] = b"PRI * HTTP/2.0\r\n\r\nSM\r\n\r\n";

pub const F_END_STREAM: u8 = 0x1;
pub const F_END_HEADERS: u8 = 0x4;
pub const F_PADDED: u8 = 0x8;
pub const F_PRIORITY: u8 = 0x20;

pub fn frame(ty: u8, flags: u8, stream: u32, payload: &[u8]) -> Vec<u8> {
    let n = payload.len();
    let mut f = vec![(n >> 16) as u8, (n >> 8) as u8, n as u8, ty, flags];
    f.extend_from_slice(&stream.to_be_bytes());
    f.extend_from_slice(payload);
    f
}

fn hpack_int(out: &mut Vec<u8>, prefix_bits: u8, first: u8, mut v: usize) {
    let max = (1usize << prefix_bits) - 1;
    if v < max {
        out.push(first | v as u8);
    } else {
        out.push(first | max as u8);
        v -= max;
        while v >= 128 {
            out.push((v % 128) as u8 | 0x80);
            v /= 128;
        }
        out.push(v as u8);
    }
}

fn hpack_str(out: &mut Vec<u8>, s: &[u8]) {
    hpack_int(out, 7, 0, s.len());
    out.extend_from_slice(s);
}

const STATIC: &[(usize, &str, &str)] = &[
    (1, ":authority", ""),
    (2, ":method", "GET"),
    (3, ":method", "POST"),
    (4, ":path", "/"),
    (5, ":path", "/index.html"),
    (6, ":scheme", "http"),
    (7, ":scheme", "https"),
    (8, ":status", "200"),
    (9, ":status", "204"),
    (13, ":status", "404"),
    (14, ":status", "500"),
    (16, "accept-encoding", "gzip, deflate"),
    (17, "accept-language", ""),
    (19, "accept", ""),
    (28, "content-length", ""),
    (31, "content-type", ""),
    (32, "cookie", ""),
    (33, "date", ""),
    (51, "referer", ""),
    (54, "server", ""),
    (58, "user-agent", ""),
];

/// HPACK encoder with its own dynamic-table bookkeeping (one per connection direction).
#[derive(Default)]
pub struct Hpack {
    /// most recent first
    dynamic: Vec<(String, String)>,
}

#[derive(Clone, Copy, Debug, PartialEq, Eq)]
pub enum Repr {
    Auto,
    LiteralIndexed,
    LiteralPlain,
    LiteralNever,
}

impl Hpack {
    pub fn new() -> Self {
        Hpack { dynamic: vec![] }
    }

    pub fn encode(&mut self, r: &mut Rng, out: &mut Vec<u8>, name: &str, value: &str, repr: Repr) {
        // full match in the dynamic table?
        if repr == Repr::Auto {
            if let Some(i) = self.dynamic.iter().position(|(n, v)| n == name && v == value) {
                hpack_int(out, 7, 0x80, 62 + i);
                return;
            }
            if let Some((idx, _, _)) = STATIC.iter().find(|(_, n, v)| *n == name && *v == value && !v.is_empty()) {
                hpack_int(out, 7, 0x80, *idx);
                return;
            }
        }
        let name_idx = STATIC.iter().find(|(_, n, _)| *n == name).map(|x| x.0);
        let repr = if repr == Repr::Auto { *r.pick(&[Repr::LiteralIndexed, Repr::LiteralIndexed, Repr::LiteralPlain, Repr::LiteralNever]) } else { repr };
        let (bits, first) = match repr {
            Repr::LiteralIndexed => (6, 0x40),
            Repr::LiteralPlain => (4, 0x00),
            _ => (4, 0x10),
        };
        match name_idx {
            Some(i) if r.chance(3, 4) => hpack_int(out, bits, first, i),
            _ => {
                hpack_int(out, bits, first, 0);
                hpack_str(out, name.as_bytes());
            }
        }
        hpack_str(out, value.as_bytes());
        if repr == Repr::LiteralIndexed {
            self.dynamic.insert(0, (name.to_string(), value.to_string()));
            // RFC 7541 4.4: entries are evicted from the end until the table fits 4096 bytes again; an entry
            // larger than the table empties it and is not added
            let size = |t: &Vec<(String, String)>| t.iter().map(|(n, v)| n.len() + v.len() + 32).sum::<usize>();
            while size(&self.dynamic) > 4096 {
                self.dynamic.pop();
            }
        }
    }

    pub fn size_update(&mut self, out: &mut Vec<u8>, size: usize) {
        hpack_int(out, 5, 0x20, size);
        if size == 0 {
            self.dynamic.clear();
        }
    }

    /// a reference to a dynamic index this connection never defined
    pub fn bogus_dynamic_ref(&self, out: &mut Vec<u8>, beyond: usize) {
        hpack_int(out, 7, 0x80, 62 + self.dynamic.len() + beyond);
    }
}

#[derive(Clone, Debug, Default, Serialize, Deserialize, PartialEq)]
pub struct Structure {
    pub has_preface: bool,
    /// (id, value) pairs of the first SETTINGS frame on stream 0, wire order; None = no SETTINGS frame
    pub first_settings: Option<Vec<(u16, u32)>>,
    /// byte offset just past the first SETTINGS frame (where the incremental extractor must report)
    pub first_settings_end: usize,
    /// increment (reserved bit cleared) of the first WINDOW_UPDATE on stream 0
    pub window_update: Option<u32>,
    /// (stream, exclusive, dependency, weight byte) of every PRIORITY frame, wire order
    pub priorities: Vec<(u32, bool, u32, u8)>,
    /// pseudo-header names of the first HEADERS frame on a non-zero stream (wire order); None = no such frame
    pub pseudo_order: Option<Vec<String>>,
    /// stream offsets where bytes were planted that read like the start of a connection (the preface): chunk cuts
    /// are placed exactly there
    #[serde(default)]
    pub hot: Vec<usize>,
    /// a frame of an unknown type sits between the HEADERS frame and its CONTINUATION
    #[serde(default)]
    pub interposed: bool,
    /// a second header block (trailers) follows on the first message's stream
    pub has_trailers: bool,
    /// an RST_STREAM frame follows the first message's head on its stream
    pub has_rst_stream: bool,
    /// flags of that HEADERS frame
    pub headers_flags: u8,
    /// ordered (name,value) list encoded in the first request/response header block
    pub header_list: Vec<(String, String)>,
    /// offset just past the frame that completes the first header block (HEADERS or last CONTINUATION)
    pub head_end: usize,
    /// offset just past the first HEADERS frame on a non-zero stream
    pub first_headers_frame_end: usize,
    pub uses_continuation: bool,
    /// a frame above the default maximum frame size precedes the header block (a receiver that did not
    /// announce a larger limit may stop there: the format reference does not apply)
    #[serde(default)]
    pub has_oversized_frame: bool,
}

fn token(r: &mut Rng, n: usize) -> String {
    const A: &[u8] = b"abcdefghijklmnopqrstuvwxyz0123456789";
    (0..n).map(|_| A[r.usize_below(A.len())] as char).collect()
}

pub fn settings_payload(pairs: &[(u16, u32)]) -> Vec<u8> {
    let mut p = vec![];
    for (id, v) in pairs {
        p.extend_from_slice(&id.to_be_bytes());
        p.extend_from_slice(&v.to_be_bytes());
    }
    p
}

pub fn random_settings(r: &mut Rng, allow_empty: bool) -> Vec<(u16, u32)> {
    let n = if allow_empty && r.chance(1, 10) { 0 } else { r.urange(1, 8) };
    (0..n)
        .map(|_| {
            let id = if r.chance(5, 6) { *r.pick(&[1u16, 2, 3, 4, 5, 6, 8, 9]) } else { r.u16() };
            let v = match r.below(4) {
                0 => r.u32(),
                1 => *r.pick(&[0u32, 1, 100, 65535, 65536, 6291456, 262144, 16384, 4096]),
                _ => r.below(1 << 24) as u32,
            };
            (id, v)
        })
        .collect()
}

#[derive(Clone, Copy, Debug, PartialEq, Eq)]
pub enum Hostile {
    None,
    /// dynamic table size update to 0 at the start of the block
    SizeZero,
    /// size update to 2^30
    SizeHuge,
    /// indexed reference to a dynamic entry this connection never inserted
    BogusRef,
    /// many inserted entries (left behind for whoever shares the decoder)
    Polluter,
    /// size update to 0 followed by an undecodable reference: the block fails *after* it changed the decoder
    SizeZeroThenBogus,
    /// entries inserted, then an undecodable reference: the block fails after polluting the table
    PolluteThenBogus,
}

pub struct Opts {
    pub request: bool,
    pub hostile: Hostile,
    /// allow PADDED / PRIORITY flags on HEADERS and CONTINUATION splitting
    pub fancy_headers: bool,
    /// allow frames before SETTINGS, empty SETTINGS etc. (Akamai-format exploration)
    pub odd_order: bool,
    /// make the header block use a dynamic-table reference to an entry inserted earlier in the same block
    pub self_ref: bool,
    /// split the header block at a header boundary into HEADERS + CONTINUATION even without fancy flags
    #[allow(dead_code)]
    pub continuation: bool,
    /// payload size of one frame above the default 16 KiB limit: placed before SETTINGS when `odd_order`, else between the control frames and HEADERS
    pub big_frame: Option<usize>,
    /// announce SETTINGS_MAX_FRAME_SIZE (id 5) above 16384 in the first SETTINGS frame
    pub announce_max_frame: bool,
    /// add filler headers after the ordinary ones until the header block is about this many bytes, and carry
    /// it in one HEADERS frame plus as many maximal CONTINUATION frames as it takes (0 = no filler)
    pub huge_block: usize,
    /// after the first message, open this many further streams with minimal HEADERS frames (a busy multiplexed
    /// connection: a browser loading a page opens dozens to hundreds)
    pub extra_streams: usize,
    /// this many empty frames of unknown types ahead of everything else after the preface (a peer, or a
    /// middlebox test tool, may send any number of frames a receiver must ignore)
    pub leading_frames: usize,
}

/// Encode the start of an HTTP/2 connection direction. Returns bytes + what was encoded.
pub fn connection_start(r: &mut Rng, o: &Opts) -> (Vec<u8>, Structure) {
    let mut st = Structure::default();
    let mut out: Vec<u8> = vec![];
    if o.request {
        if !(o.odd_order && r.chance(1, 8)) {
            out.extend_from_slice(PREFACE);
            st.has_preface = true;
        }
    }
    let mut hp = Hpack::new();

    // control frames before HEADERS
    let mut pre: Vec<Vec<u8>> = vec![];
    let mut settings = random_settings(r, o.odd_order);
    // one connection start in twelve: the first SETTINGS frame opens with four parameters (unknown ids, to be kept
    // verbatim) whose 24 bytes spell the connection preface - the preface somewhere else than at the very start
    let preface_in_settings = r.chance(1, 12);
    if preface_in_settings {
        let mut v: Vec<(u16, u32)> = PREFACE.chunks(6).map(|c| (u16::from_be_bytes([c[0], c[1]]), u32::from_be_bytes([c[2], c[3], c[4], c[5]]))).collect();
        v.extend(settings.iter().cloned());
        settings = v;
    }
    if o.announce_max_frame {
        settings.retain(|(id, _)| *id != 5);
        settings.push((5, *r.pick(&[16385u32, 65536, 1 << 20, (1 << 24) - 1])));
    }
    let mut settings_frame = frame(4, 0, 0, &settings_payload(&settings));
    if o.odd_order && r.chance(1, 10) {
        // a SETTINGS frame on a non-zero stream first (must be ignored by "first SETTINGS on stream 0")
        pre.push(frame(4, 0, 3, &settings_payload(&random_settings(r, false))));
    }
    let mut wu: Option<u32> = None;
    let mut leading: Vec<Vec<u8>> = vec![];
    if o.odd_order && r.chance(1, 4) {
        // frames *before* SETTINGS
        let inc = r.below(1 << 31) as u32;
        let raw = if r.chance(1, 3) { inc | 0x8000_0000 } else { inc };
        leading.push(frame(8, 0, 0, &raw.to_be_bytes()));
        wu = Some(inc);
        if r.chance(1, 2) {
            let (sid, ex, dep, w) = (1 + 2 * r.below(8) as u32, r.chance(1, 2), r.below(16) as u32, r.u8());
            let mut p = (dep | if ex { 0x8000_0000 } else { 0 }).to_be_bytes().to_vec();
            p.push(w);
            leading.push(frame(2, 0, sid, &p));
            st.priorities.push((sid, ex, dep, w));
        }
    }
    if r.chance(1, 12) && o.odd_order {
        // flag bits on the first SETTINGS frame (the ACK bit together with parameters, undefined bits): the frame
        // is still the first SETTINGS frame and its parameters are still what the fingerprint lists
        settings_frame = frame(4, *r.pick(&[0x01u8, 0x01, 0x02, 0x80, 0xff]), 0, &settings_payload(&settings));
    }
    if let (Some(n), true) = (o.big_frame, o.odd_order) {
        // an ordinary frame, then the oversized one, both ahead of SETTINGS
        let (sid, ex, dep, w) = (1 + 2 * r.below(8) as u32, r.chance(1, 2), r.below(16) as u32, r.u8());
        let mut p = (dep | if ex { 0x8000_0000 } else { 0 }).to_be_bytes().to_vec();
        p.push(w);
        leading.push(frame(2, 0, sid, &p));
        st.priorities.push((sid, ex, dep, w));
        // its payload contains bytes that look like a SETTINGS frame, should anybody resume parsing inside it
        let mut body = r.bytes(n);
        let fake = frame(4, 0, 0, &settings_payload(&[(2, 0), (4, 6291456)]));
        let at = r.urange(0, n - fake.len() - 1);
        body[at..at + fake.len()].copy_from_slice(&fake);
        leading.push(frame(0, 0, 1, &body));
        st.has_oversized_frame = true;
    }
    for k in 0..o.leading_frames {
        out.extend_from_slice(&frame(0x20 + (k % 7) as u8, 0, 0, &[]));
    }
    if o.odd_order && r.chance(1, 8) {
        // an ignorable frame ahead of SETTINGS whose payload is the connection preface
        st.hot.push(out.len() + 9);
        out.extend_from_slice(&frame(0x21, 0, 0, PREFACE));
    }
    for f in &leading {
        out.extend_from_slice(f);
    }
    for f in &pre {
        out.extend_from_slice(f);
    }
    if preface_in_settings {
        st.hot.push(out.len() + 9);
    }
    out.extend_from_slice(&settings_frame);
    st.first_settings = Some(settings.clone());
    st.first_settings_end = out.len();

    // after SETTINGS: window updates, priorities, unknown frames, a second SETTINGS / an ACK
    let n_ctl = r.urange(0, 5);
    for _ in 0..n_ctl {
        match r.below(7) {
            0 | 1 => {
                let sid = if r.chance(3, 4) { 0 } else { 1 + 2 * r.below(4) as u32 };
                let inc = r.below(1 << 31) as u32;
                let raw = if r.chance(1, 4) { inc | 0x8000_0000 } else { inc };
                let fl = if r.chance(1, 8) { r.u8() } else { 0 };
                out.extend_from_slice(&frame(8, fl, sid, &raw.to_be_bytes()));
                if sid == 0 && wu.is_none() {
                    wu = Some(inc);
                }
            }
            2 | 3 => {
                let (sid, ex, dep, w) = (1 + 2 * r.below(8) as u32, r.chance(1, 3), r.below(16) as u32, r.u8());
                let mut p = (dep | if ex { 0x8000_0000 } else { 0 }).to_be_bytes().to_vec();
                p.push(w);
                // one PRIORITY frame in ten is longer than its five defined bytes (the first five still say what they say)
                if r.chance(1, 10) {
                    let extra = r.urange(1, 6);
                    p.extend_from_slice(&r.bytes(extra));
                }
                let fl = if r.chance(1, 8) { r.u8() } else { 0 };
                out.extend_from_slice(&frame(2, fl, sid, &p));
                st.priorities.push((sid, ex, dep, w));
            }
            4 => out.extend_from_slice(&frame(4, 1, 0, &[])), // SETTINGS ACK
            5 => out.extend_from_slice(&frame(4, 0, 0, &settings_payload(&random_settings(r, false)))),
            _ => {
                let n = r.urange(0, 24);
                out.extend_from_slice(&frame(0x0b + r.below(20) as u8, r.u8(), r.below(4) as u32, &r.bytes(n)));
            }
        }
    }
    st.window_update = wu;
    if let (Some(n), false) = (o.big_frame, o.odd_order) {
        out.extend_from_slice(&frame(0, 0, 1 + 2 * r.below(4) as u32, &r.bytes(n)));
        st.has_oversized_frame = true;
    }

    // header list
    let mut list: Vec<(String, String)> = vec![];
    if o.request {
        let mut pseudo = vec![
            (":method".to_string(), r.pick(&["GET", "POST", "HEAD"]).to_string()),
            (":scheme".to_string(), r.pick(&["https", "http"]).to_string()),
            (":authority".to_string(), format!("{}.example.test", token(r, 6))),
            (":path".to_string(), if r.chance(1, 2) { "/".to_string() } else { format!("/{}", token(r, 8)) }),
        ];
        if r.chance(2, 3) {
            r.shuffle(&mut pseudo);
        }
        // one request in ten carries a pseudo-header no specification defines (extensions do: :protocol), now and
        // then with blanks or a tab at the end or the start of its name
        if r.chance(1, 10) {
            // (the defined names with a doubled or tripled colon, or in another case, are undefined names too)
            let name = format!(":{}{}{}", if r.chance(1, 6) { " " } else { "" }, r.pick(&["protocol", "x", "foo-bar", "version", ":method", "::path", ":authority", ":scheme", ":status", "Method", "PATH", "method:", ""]), r.pick(&["", "", " ", "  ", "\t", "\u{a0}"]));
            let at = if r.chance(1, 2) { pseudo.len() } else { r.usize_below(pseudo.len() + 1) };
            pseudo.insert(at, (name, "v".to_string()));
        }
        list.extend(pseudo);
        if r.chance(5, 6) {
            list.push(("user-agent".into(), format!("sim-agent/{}", r.below(100))));
        }
        if r.chance(2, 3) {
            list.push(("accept".into(), "*/*".into()));
        }
        if r.chance(1, 2) {
            list.push(("accept-language".into(), super::http1::accept_language(r)));
        }
        if r.chance(1, 3) {
            list.push(("cookie".into(), format!("sid={}", token(r, 8))));
        }
        if r.chance(1, 4) {
            list.push(("referer".into(), format!("https://{}.example.test/", token(r, 4))));
        }
    } else {
        list.push((":status".into(), r.pick(&["200", "404", "204", "301"]).to_string()));
        if r.chance(5, 6) {
            list.push(("server".into(), r.pick(&["nginx", "h2o/2.3", "Apache"]).to_string()));
        }
        if r.chance(2, 3) {
            list.push(("content-type".into(), "text/html".into()));
        }
        if r.chance(1, 2) {
            list.push(("date".into(), "Sat, 26 Sep 2026 12:00:00 GMT".into()));
        }
    }
    for _ in 0..r.below(4) {
        list.push((format!("x-{}", token(r, 5)), { let n = r.urange(1, 20); token(r, n) }));
    }
    if o.huge_block > 0 {
        let mut have = 0usize;
        while have < o.huge_block {
            let n = r.urange(2000, 9000);
            list.push((format!("x-fill-{}", token(r, 4)), token(r, n)));
            have += n;
        }
    }

    // header block
    let mut block: Vec<u8> = vec![];
    match o.hostile {
        Hostile::SizeZero | Hostile::SizeZeroThenBogus => hp.size_update(&mut block, 0),
        Hostile::SizeHuge => hp.size_update(&mut block, 1 << 30),
        _ => {}
    }
    let mut split_points: Vec<usize> = vec![];
    for (i, (n, v)) in list.clone().iter().enumerate() {
        let repr = if o.self_ref && i == list.len() - 1 { Repr::LiteralIndexed } else { Repr::Auto };
        hp.encode(r, &mut block, n, v, repr);
        split_points.push(block.len());
    }
    if o.self_ref {
        // repeat the last header through a dynamic-table reference (index 62 = most recent insertion)
        if let Some((n, v)) = list.last().cloned() {
            hp.encode(r, &mut block, &n, &v, Repr::Auto);
            list.push((n, v));
            split_points.push(block.len());
        }
    }
    if o.hostile == Hostile::Polluter || o.hostile == Hostile::PolluteThenBogus {
        for _ in 0..r.urange(5, 40) {
            let (n, v) = (format!("x-pollute-{}", token(r, 4)), token(r, 10));
            hp.encode(r, &mut block, &n, &v, Repr::LiteralIndexed);
            list.push((n, v));
            split_points.push(block.len());
        }
    }
    if matches!(o.hostile, Hostile::BogusRef | Hostile::SizeZeroThenBogus | Hostile::PolluteThenBogus) {
        hp.bogus_dynamic_ref(&mut block, r.urange(0, 5));
    }

    let sid = 1 + 2 * r.below(5) as u32;
    let mut flags = F_END_HEADERS;
    if r.chance(1, 2) {
        flags |= F_END_STREAM;
    }
    let mut payload: Vec<u8> = vec![];
    let mut pad = 0usize;
    if o.fancy_headers && r.chance(1, 3) {
        flags |= F_PADDED;
        pad = r.urange(0, 16);
        payload.push(pad as u8);
    }
    if o.fancy_headers && r.chance(1, 3) {
        flags |= F_PRIORITY;
        let dep = r.below(16) as u32 | if r.chance(1, 2) { 0x8000_0000 } else { 0 };
        payload.extend_from_slice(&dep.to_be_bytes());
        payload.push(r.u8());
    }
    let use_cont = (o.fancy_headers && split_points.len() > 2 && r.chance(1, 3)) || (o.continuation && split_points.len() > 2);
    if o.huge_block > 0 {
        // maximal frames: HEADERS carries what fits beside its own fields, every CONTINUATION 16384 bytes
        let room = 16384 - payload.len() - pad;
        let first = room.min(block.len());
        flags &= !F_END_HEADERS;
        payload.extend_from_slice(&block[..first]);
        payload.extend(std::iter::repeat(0u8).take(pad));
        out.extend_from_slice(&frame(1, flags, sid, &payload));
        st.first_headers_frame_end = out.len();
        let mut at = first;
        loop {
            let end = (at + 16384).min(block.len());
            let last = end == block.len();
            out.extend_from_slice(&frame(9, if last { F_END_HEADERS } else { 0 }, sid, &block[at..end]));
            at = end;
            if last {
                break;
            }
        }
        st.uses_continuation = true;
    } else if use_cont {
        // split at a header boundary (splitting inside a header is C16 territory)
        let cut = split_points[r.urange(0, split_points.len() - 2)];
        flags &= !F_END_HEADERS;
        payload.extend_from_slice(&block[..cut]);
        payload.extend(std::iter::repeat(0u8).take(pad));
        out.extend_from_slice(&frame(1, flags, sid, &payload));
        st.first_headers_frame_end = out.len();
        // a peer that does not keep to the rules: a frame of an unknown type between HEADERS and its CONTINUATION.
        // What the header block is then is not defined by the format; incremental and one-shot extraction must
        // still agree with each other
        if r.chance(1, 8) {
            out.extend_from_slice(&frame(*r.pick(&[0x0au8, 0x0c, 0x21, 0xfa]), 0, *r.pick(&[0u32, sid]), &r.bytes(r.clone().urange(0, 12))));
            st.interposed = true;
        }
        out.extend_from_slice(&frame(9, F_END_HEADERS, sid, &block[cut..]));
        st.uses_continuation = true;
    } else {
        payload.extend_from_slice(&block);
        payload.extend(std::iter::repeat(0u8).take(pad));
        out.extend_from_slice(&frame(1, flags, sid, &payload));
        st.first_headers_frame_end = out.len();
    }
    st.head_end = out.len();
    st.headers_flags = flags;
    st.pseudo_order = Some(list.iter().filter(|(n, _)| n.starts_with(':')).map(|(n, _)| n.clone()).collect());
    st.header_list = list;

    // trailing DATA, and now and then a second header block on the same stream behind it: trailers (a literal
    // field with a new name, no table use), which are not part of the message head
    if flags & F_END_STREAM == 0 && r.chance(1, 2) {
        let n = r.urange(1, 200);
        let trailers = r.chance(1, 3);
        out.extend_from_slice(&frame(0, if trailers { 0 } else { F_END_STREAM }, sid, &r.bytes(n)));
        if trailers {
            let (name, value) = (*r.pick(&["x-trailer", "grpc-status", "server-timing", "x-checksum"]), format!("{}", r.below(1000)));
            let mut tb = vec![0x00u8, name.len() as u8];
            tb.extend_from_slice(name.as_bytes());
            tb.push(value.len() as u8);
            tb.extend_from_slice(value.as_bytes());
            out.extend_from_slice(&frame(1, F_END_HEADERS | F_END_STREAM, sid, &tb));
            st.has_trailers = true;
        }
    } else if r.chance(1, 10) {
        // the peer withdraws the stream again right after its head: RST_STREAM, mostly CANCEL
        let code: u32 = *r.pick(&[8u32, 8, 8, 0, 5, 7, 11]);
        out.extend_from_slice(&frame(3, 0, sid, &code.to_be_bytes()));
        st.has_rst_stream = true;
    }
    // settings may change later in the connection: one stream in five sends another SETTINGS frame behind the first
    // message (header table size 0 or small, other parameters) - it governs what follows, not what came before
    if r.chance(1, 5) {
        let mut later = random_settings(r, false);
        later.retain(|(id, _)| *id != 1);
        later.push((1, *r.pick(&[0u32, 0, 64, 4096, 65536])));
        out.extend_from_slice(&frame(4, 0, 0, &settings_payload(&later)));
    }
    // further streams: one indexed header field each (0x82 = :method GET, 0x88 = :status 200)
    let mut next_sid = sid + 2;
    for _ in 0..o.extra_streams {
        out.extend_from_slice(&frame(1, F_END_HEADERS | F_END_STREAM, next_sid, &[if o.request { 0x82 } else { 0x88 }]));
        next_sid += 2;
    }
    (out, st)
}

/// The Akamai fingerprint string S|WU|P|PS computed from the generator's structure (reference model).
pub fn akamai_reference(st: &Structure) -> Option<(String, String)> {
    if st.has_oversized_frame || st.interposed {
        return None;
    }
    let settings = st.first_settings.as_ref()?;
    if settings.is_empty() {
        return None;
    }
    let s = settings.iter().map(|(id, v)| format!("{}:{}", id, v)).collect::<Vec<_>>().join(";");
    let wu = match st.window_update {
        Some(x) if x != 0 => x.to_string(),
        _ => "00".to_string(),
    };
    let p = if st.priorities.is_empty() {
        "0".to_string()
    } else {
        st.priorities.iter().map(|(sid, ex, dep, w)| format!("{}:{}:{}:{}", sid, *ex as u8, dep, *w as u16 + 1)).collect::<Vec<_>>().join(",")
    };
    let ps = st
        .pseudo_order
        .clone()
        .unwrap_or_default()
        .iter()
        .map(|n| match n.as_str() {
            ":method" => "m".to_string(),
            ":path" => "p".to_string(),
            ":authority" => "a".to_string(),
            ":scheme" => "s".to_string(),
            ":status" => "st".to_string(),
            o => format!("?{}", o),
        })
        .collect::<Vec<_>>()
        .join(",");
    let fp = format!("{}|{}|{}|{}", s, wu, p, ps);
    use sha2::{Digest, Sha256};
    let mut h = Sha256::new();
    h.update(fp.as_bytes());
    let hex = format!("{:x}", h.finalize());
    Some((fp, hex[..32].to_string()))
}
