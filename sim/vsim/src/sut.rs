//! System under test: the four real analyzers behind one harness interface, and the canonical
//! rendering of everything they report.
//!
//! Two drive paths exist for every analyzer and are used interchangeably (and cross-checked):
//!  * `deliver`: the private per-packet function through hook H3 (`verif_process_packet`), one call
//!    per frame, return value observed directly;
//!  * `run_loop`: the real sequential packet loop (`process_with`, through `verif_process_with`),
//!    with the simulator as the packet-source closure: each call of the closure first drains the
//!    result channel (everything in it belongs to the previous frame, the loop is synchronous),
//!    advances the simulated clock to the next arrival and hands over the next frame.

use crate::pkt::Endpoint;
use huginn_net_db::Database;
use huginn_net_verif_rt::clock;
use serde::{Deserialize, Serialize};
use std::net::IpAddr;
use std::sync::{Arc, OnceLock};
use ttl_cache::TtlCache;

thread_local! {
    /// which signature database the analyzers built on this thread get: 0 = the bundled p0f.fp, 1..=DB_VARIANTS = a
    /// deterministic rewrite of it (see `db_text_variant`). Set by a scenario at the start of its run; reset by the runner.
    static DB_VARIANT: std::cell::Cell<u32> = const { std::cell::Cell::new(0) };
}

pub const DB_VARIANTS: u32 = 24;

pub fn set_db_variant(v: u32) {
    // diagnosis aid: VSIM_FORCE_DB_VARIANT=n makes every run that asks for any database use rewrite n
    static FORCE: OnceLock<Option<u32>> = OnceLock::new();
    let v = FORCE.get_or_init(|| std::env::var("VSIM_FORCE_DB_VARIANT").ok().and_then(|x| x.parse().ok())).unwrap_or(v);
    DB_VARIANT.with(|c| c.set(v.min(DB_VARIANTS)));
}

pub fn bundled_text() -> &'static str {
    static T: OnceLock<String> = OnceLock::new();
    T.get_or_init(|| {
        let root = std::env::var("VERIF_REPO").unwrap_or_else(|_| "/repo".to_string());
        std::fs::read_to_string(format!("{}/huginn-net-db/config/p0f.fp", root)).unwrap_or_default()
    })
}

/// The database as an input dimension: the bundled text with signature fields and labels rewritten inside their
/// grammar - TTL fields in every spelling the loader accepts (`n`, `n-`, `n+?`, `n+d` incl. sums above 255),
/// window fields at their extremes, label names in another letter case, the `ua_os` list extended by the
/// product tokens of the generated User-Agents. Which lines are rewritten depends on `v` alone.
pub fn db_text_variant(v: u32) -> String {
    let mut r = crate::rng::Rng::new(0xDB00_0000 + v as u64);
    let mut out = String::new();
    let mut section = String::new();
    for line in bundled_text().lines() {
        let t = line.trim_start();
        if t.starts_with('[') {
            section = t.to_string();
        }
        let mut l = line.to_string();
        if t.starts_with("sig") && section.starts_with("[tcp:") && r.chance(1, 3) {
            if let Some(eq) = l.find('=') {
                let (head, body) = l.split_at(eq + 1);
                let mut f: Vec<String> = body.trim().split(':').map(|x| x.to_string()).collect();
                if f.len() == 8 {
                    if r.chance(2, 3) {
                        f[1] = r.pick(&["250+10", "200+100", "255+255", "64+?", "64-", "128", "255", "1", "64+0", "0+255"]).to_string();
                    }
                    if r.chance(1, 4) {
                        let ws: Vec<&str> = f[4].splitn(2, ',').collect();
                        let scale = ws.get(1).cloned().unwrap_or("*").to_string();
                        f[4] = format!("{},{}", r.pick(&["mss*255", "mtu*255", "%65535", "65535", "*", "%1", "0"]), if r.chance(1, 3) { "255".to_string() } else { scale });
                    }
                    l = format!("{} {}", head, f.join(":"));
                }
            }
        } else if t.starts_with("label") && section.starts_with("[http:") && r.chance(1, 3) {
            if let Some(eq) = l.find('=') {
                let (head, body) = l.split_at(eq + 1);
                let mut f: Vec<String> = body.trim().splitn(4, ':').map(|x| x.to_string()).collect();
                if f.len() == 4 {
                    f[2] = if r.chance(1, 2) { f[2].to_uppercase() } else { f[2].to_lowercase() };
                    l = format!("{} {}", head, f.join(":"));
                }
            }
        } else if t.starts_with("sig") && section.starts_with("[http:") && r.chance(1, 8) {
            // stray entries in the header list: a doubled, leading or trailing comma, a lone '?'
            if let Some(eq) = l.find('=') {
                let (head, body) = l.split_at(eq + 1);
                let body = body.trim();
                if let Some(c1) = body.find(':') {
                    let (ver, rest) = body.split_at(c1 + 1);
                    let rest = match r.below(4) {
                        0 => rest.replacen(',', ",,", 1),
                        1 => format!(",{}", rest),
                        2 => rest.replacen(',', ",?,", 1),
                        _ => rest.replacen(':', ",:", 1),
                    };
                    l = format!("{} {}{}", head, ver, rest);
                }
            }
        } else if t.starts_with("ua_os") {
            // (in front: the loader's list ends at the first entry it cannot read, `iOS=[iPad]` in the bundled file)
            if let Some(eq) = l.find('=') {
                let (head, body) = l.split_at(eq + 1);
                l = format!("{} Firefox,Chrome,MSIE,Opera,Safari,curl,Wget,webOS,Android,Konqueror,Googlebot,{}", head, body.trim());
            }
        }
        // a label that has no signatures of its own (a class reserved for later, signatures commented out): in
        // front of a section's first label, or between two labels further down
        if t.starts_with("label") && (section.starts_with("[tcp:") || section.starts_with("[http:")) && r.chance(1, 40) {
            out.push_str(if section.starts_with("[tcp:") { "label = s:unix:SimReserved:\n\n" } else { "label = s:!:SimReserved:\n\n" });
        }
        out.push_str(&l);
        out.push('\n');
        // one TCP signature in five is listed a second time for segments that carry data (payload class '+'; the
        // bundled file only knows class 0): a handshake segment with payload - TCP Fast Open - then has a match
        if t.starts_with("sig") && section.starts_with("[tcp:") && l.trim_end().ends_with(":0") && r.chance(1, 2) {
            let base = l.trim_end();
            out.push_str(&format!("{}+\n", &base[..base.len() - 1]));
        }
        if (section.starts_with("[tcp:") || section.starts_with("[http:")) && t.starts_with('[') && r.chance(1, 2) {
            out.push_str(if section.starts_with("[tcp:") { "label = g:unix:SimEmptyFirst:\n\n" } else { "label = s:!:SimEmptyFirst:\n\n" });
        }
        if (t.starts_with("[tcp:request]") || t.starts_with("[tcp:response]")) && r.chance(2, 3) {
            // signatures for what the simulated hosts send without an MSS option (option layouts nop,nop,ts and none),
            // under a label of this section's own: the same observation is then known to both sections, differently
            let which = if t.starts_with("[tcp:request]") { "Req" } else { "Resp" };
            out.push_str(&format!("label = s:unix:SimBare{}:1\n", which));
            for ttl in ["64", "128", "255"] {
                for layout in ["nop,nop,ts", "nop,nop,ts,eol+0"] {
                    for quirks in ["df,id+", "df,id+,ts2+", "df,id+,ack+", "df,id+,ts1-", "df", "df,id-", "id+", ""] {
                        for pclass in ["0", "+"] {
                            out.push_str(&format!("sig   = *:{}:0:*:*,*:{}:{}:{}\n", ttl, layout, quirks, pclass));
                        }
                    }
                }
            }
            out.push('\n');
        }
        if t.starts_with("ua_os") && v % 6 == 0 {
            // one rewrite in six carries a signature with a header list of tens of thousands of (optional) entries
            let mut list = String::from("Host");
            for k in 0..60_000 {
                list.push_str(&format!(",?X-P{}", k));
            }
            out.push_str(&format!("\nlabel = s:!:SimLongList:1\nsys   = @unix\nsig   = *:{}::SimLongList\n", list));
        }
        if t.starts_with("[mtu]") && r.chance(1, 2) {
            // a link type of its own that repeats values listed further down under other labels
            out.push_str("label = metro Ethernet\nsig   = 1500\nsig   = 1504\nsig   = 1492\nsig   = 576\n");
        }
    }
    out
}

/// Signatures for HTTP/2 messages, built through the database's public fields: one per direction, permissive
/// (every listed header optional), so that generated HTTP/2 messages are within matching distance.
fn add_http2_signatures(db: &mut Database) {
    use huginn_net_db::http::{Header, Signature, Version};
    use huginn_net_db::{Label, Type};
    let opt = |names: &[&str]| -> Vec<Header> { names.iter().map(|n| Header { optional: true, name: n.to_string(), value: None }).collect() };
    let label = |name: &str| Label { ty: Type::Specified, class: Some("!".to_string()), name: name.to_string(), flavor: Some("2.x".to_string()) };
    let mut req = db.http_request.entries.clone();
    req.push((label("SimH2Client"), vec![Signature { version: Version::V20, horder: opt(&["user-agent", "accept", "accept-encoding", "accept-language", "cookie"]), habsent: vec![], expsw: String::new() }]));
    db.http_request = huginn_net_db::db::FingerprintCollection::new(req);
    let mut resp = db.http_response.entries.clone();
    resp.push((label("SimH2Server"), vec![Signature { version: Version::V20, horder: opt(&["server", "content-type", "content-length", "date"]), habsent: vec![], expsw: String::new() }]));
    db.http_response = huginn_net_db::db::FingerprintCollection::new(resp);
}

type DbPair = (Arc<Database>, &'static Database);

fn db_pair() -> DbPair {
    static BUNDLED: OnceLock<DbPair> = OnceLock::new();
    static VARIANTS: OnceLock<std::sync::Mutex<std::collections::BTreeMap<u32, DbPair>>> = OnceLock::new();
    let bundled = BUNDLED.get_or_init(|| {
        let d = Database::load_default().expect("bundled p0f.fp loads");
        let s: &'static Database = Box::leak(Box::new(Database::load_default().expect("bundled p0f.fp loads")));
        (Arc::new(d), s)
    });
    let v = DB_VARIANT.with(|c| c.get());
    if v == 0 {
        return bundled.clone();
    }
    let mut m = VARIANTS.get_or_init(|| std::sync::Mutex::new(std::collections::BTreeMap::new())).lock().unwrap();
    m.entry(v)
        .or_insert_with(|| {
            let text = db_text_variant(v);
            // a rewrite the loader rejects falls back to the bundled database (the loader's own totality is C01's DbText entry)
            match (text.parse::<Database>(), text.parse::<Database>()) {
                (Ok(mut a), Ok(mut b)) => {
                    // every other rewrite also carries signatures only the API can express: HTTP/2 ones (the text
                    // grammar has version tokens 0, 1 and * only, and * stands for 1.0 and 1.1)
                    if v % 2 == 0 {
                        add_http2_signatures(&mut a);
                        add_http2_signatures(&mut b);
                    }
                    (Arc::new(a), Box::leak(Box::new(b)) as &'static Database)
                }
                _ => bundled.clone(),
            }
        })
        .clone()
}

pub fn db() -> Arc<Database> {
    db_pair().0
}

pub fn db_static() -> &'static Database {
    db_pair().1
}

/// One reported item, rendered canonically.
#[derive(Clone, Debug, PartialEq, Eq, Hash, Serialize, Deserialize, PartialOrd, Ord)]
pub struct Obs {
    /// syn | syn_ack | mtu | client_uptime | server_uptime | http_request | http_response | tls
    pub kind: String,
    pub src: String,
    pub dst: String,
    pub text: String,
}

impl Obs {
    pub fn short(&self) -> String {
        let t: String = self.text.chars().take(160).collect();
        format!("{} {}->{} {}", self.kind, self.src, self.dst, t)
    }
}

/// What one delivered frame produced.
#[derive(Clone, Debug, PartialEq, Eq, Default, Serialize, Deserialize)]
pub struct PktOut {
    pub obs: Vec<Obs>,
    /// `Some(variant)` when the per-packet function returned `Err` (only visible on the `deliver` path)
    pub err: Option<String>,
}

impl PktOut {
    pub fn is_empty(&self) -> bool {
        self.obs.is_empty()
    }
}

fn ep(ip: &IpAddr, port: u16) -> String {
    format!("{}:{}", ip, port)
}

pub fn obs_tcp(r: &huginn_net_tcp::TcpAnalysisResult) -> Vec<Obs> {
    let mut v = vec![];
    if let Some(x) = &r.syn {
        v.push(Obs { kind: "syn".into(), src: ep(&x.source.ip, x.source.port), dst: ep(&x.destination.ip, x.destination.port), text: format!("{:?}", x) });
    }
    if let Some(x) = &r.syn_ack {
        v.push(Obs { kind: "syn_ack".into(), src: ep(&x.source.ip, x.source.port), dst: ep(&x.destination.ip, x.destination.port), text: format!("{:?}", x) });
    }
    if let Some(x) = &r.mtu {
        v.push(Obs { kind: "mtu".into(), src: ep(&x.source.ip, x.source.port), dst: ep(&x.destination.ip, x.destination.port), text: format!("{:?}", x) });
    }
    if let Some(x) = &r.client_uptime {
        v.push(Obs { kind: "client_uptime".into(), src: ep(&x.source.ip, x.source.port), dst: ep(&x.destination.ip, x.destination.port), text: format!("{:?}", x) });
    }
    if let Some(x) = &r.server_uptime {
        v.push(Obs { kind: "server_uptime".into(), src: ep(&x.source.ip, x.source.port), dst: ep(&x.destination.ip, x.destination.port), text: format!("{:?}", x) });
    }
    v
}

pub fn obs_http(r: &huginn_net_http::HttpAnalysisResult) -> Vec<Obs> {
    let mut v = vec![];
    if let Some(x) = &r.http_request {
        v.push(Obs { kind: "http_request".into(), src: ep(&x.source.ip, x.source.port), dst: ep(&x.destination.ip, x.destination.port), text: format!("{:?}", x) });
    }
    if let Some(x) = &r.http_response {
        v.push(Obs { kind: "http_response".into(), src: ep(&x.source.ip, x.source.port), dst: ep(&x.destination.ip, x.destination.port), text: format!("{:?}", x) });
    }
    v
}

pub fn obs_tls(x: &huginn_net_tls::TlsClientOutput) -> Obs {
    Obs {
        kind: "tls".into(),
        src: ep(&x.source.ip, x.source.port),
        dst: ep(&x.destination.ip, x.destination.port),
        text: format!("TlsClientOutput {{ source: {:?}, destination: {:?}, sig: {:?} }}", x.source, x.destination, x.sig),
    }
}

pub fn obs_tls_sig(sig: &huginn_net_tls::ObservableTlsClient) -> String {
    format!("{:?}", sig)
}

pub fn obs_uni(r: &huginn_net::output::FingerprintResult) -> Vec<Obs> {
    let mut v = vec![];
    if let Some(x) = &r.tcp_syn {
        v.push(Obs { kind: "syn".into(), src: ep(&x.source.ip, x.source.port), dst: ep(&x.destination.ip, x.destination.port), text: format!("{:?}", x) });
    }
    if let Some(x) = &r.tcp_syn_ack {
        v.push(Obs { kind: "syn_ack".into(), src: ep(&x.source.ip, x.source.port), dst: ep(&x.destination.ip, x.destination.port), text: format!("{:?}", x) });
    }
    if let Some(x) = &r.tcp_mtu {
        v.push(Obs { kind: "mtu".into(), src: ep(&x.source.ip, x.source.port), dst: ep(&x.destination.ip, x.destination.port), text: format!("{:?}", x) });
    }
    if let Some(x) = &r.tcp_client_uptime {
        v.push(Obs { kind: "client_uptime".into(), src: ep(&x.source.ip, x.source.port), dst: ep(&x.destination.ip, x.destination.port), text: format!("{:?}", x) });
    }
    if let Some(x) = &r.tcp_server_uptime {
        v.push(Obs { kind: "server_uptime".into(), src: ep(&x.source.ip, x.source.port), dst: ep(&x.destination.ip, x.destination.port), text: format!("{:?}", x) });
    }
    if let Some(x) = &r.http_request {
        v.push(Obs { kind: "http_request".into(), src: ep(&x.source.ip, x.source.port), dst: ep(&x.destination.ip, x.destination.port), text: format!("{:?}", x) });
    }
    if let Some(x) = &r.http_response {
        v.push(Obs { kind: "http_response".into(), src: ep(&x.source.ip, x.source.port), dst: ep(&x.destination.ip, x.destination.port), text: format!("{:?}", x) });
    }
    if let Some(x) = &r.tls_client {
        v.push(obs_tls(x));
    }
    v
}

// ---------------------------------------------------------------------------------------------
// filter specification in harness terms (serialisable), convertible to each crate's FilterConfig

#[derive(Clone, Debug, Default, Serialize, Deserialize, PartialEq)]
pub struct FilterSpec {
    pub deny: bool,
    pub port: Option<PortSpec>,
    pub ip: Option<IpSpec>,
    pub subnet: Option<SubnetSpec>,
}
#[derive(Clone, Debug, Default, Serialize, Deserialize, PartialEq)]
pub struct PortSpec {
    pub src: Vec<u16>,
    pub dst: Vec<u16>,
    pub src_ranges: Vec<(u16, u16)>,
    pub dst_ranges: Vec<(u16, u16)>,
    pub any: bool,
}
#[derive(Clone, Debug, Default, Serialize, Deserialize, PartialEq)]
pub struct IpSpec {
    pub addrs: Vec<IpAddr>,
    pub check_src: bool,
    pub check_dst: bool,
}
#[derive(Clone, Debug, Default, Serialize, Deserialize, PartialEq)]
pub struct SubnetSpec {
    /// (network address, prefix length)
    pub nets: Vec<(IpAddr, u8)>,
    /// the same rules as the operator wrote them: an interface address with its prefix length (bits set below the
    /// prefix), which names the same CIDR block. When present this is what the analyzer under test is given, while
    /// the oracle's filter is built from the canonical `nets`.
    #[serde(default)]
    pub as_written: Vec<(IpAddr, u8)>,
    pub check_src: bool,
    pub check_dst: bool,
}

macro_rules! mk_filter {
    ($krate:ident, $spec:expr) => {
        mk_filter!($krate, $spec, true)
    };
    ($krate:ident, $spec:expr, $written:expr) => {{
        use pnet::ipnetwork::{Ipv4Network, Ipv6Network};
        let spec: &FilterSpec = $spec;
        let mut f = $krate::FilterConfig::new().mode(if spec.deny { $krate::FilterMode::Deny } else { $krate::FilterMode::Allow });
        if let Some(p) = &spec.port {
            f = f.with_port_filter($krate::PortFilter {
                source_ports: p.src.clone(),
                destination_ports: p.dst.clone(),
                source_ranges: p.src_ranges.clone(),
                destination_ranges: p.dst_ranges.clone(),
                match_any: p.any,
            });
        }
        if let Some(i) = &spec.ip {
            let mut v4 = vec![];
            let mut v6 = vec![];
            for a in &i.addrs {
                match a {
                    IpAddr::V4(x) => v4.push(*x),
                    IpAddr::V6(x) => v6.push(*x),
                }
            }
            f = f.with_ip_filter($krate::IpFilter { ipv4_addresses: v4, ipv6_addresses: v6, check_source: i.check_src, check_destination: i.check_dst });
        }
        if let Some(s) = &spec.subnet {
            let mut v4 = vec![];
            let mut v6 = vec![];
            let rules = if $written && !s.as_written.is_empty() { &s.as_written } else { &s.nets };
            for (a, p) in rules {
                match a {
                    IpAddr::V4(x) => {
                        if let Ok(n) = Ipv4Network::new(*x, (*p).min(32)) {
                            v4.push(n)
                        }
                    }
                    IpAddr::V6(x) => {
                        if let Ok(n) = Ipv6Network::new(*x, (*p).min(128)) {
                            v6.push(n)
                        }
                    }
                }
            }
            f = f.with_subnet_filter($krate::SubnetFilter { ipv4_subnets: v4, ipv6_subnets: v6, check_source: s.check_src, check_destination: s.check_dst });
        }
        f
    }};
}

pub fn filter_tcp(spec: &FilterSpec) -> huginn_net_tcp::FilterConfig {
    mk_filter!(huginn_net_tcp, spec)
}
/// the filter with every subnet rule in its canonical spelling (the oracle's reading of the rules)
pub fn filter_canonical(spec: &FilterSpec) -> huginn_net_tcp::FilterConfig {
    mk_filter!(huginn_net_tcp, spec, false)
}
pub fn filter_http(spec: &FilterSpec) -> huginn_net_http::FilterConfig {
    mk_filter!(huginn_net_http, spec)
}
pub fn filter_tls(spec: &FilterSpec) -> huginn_net_tls::FilterConfig {
    mk_filter!(huginn_net_tls, spec)
}

// ---------------------------------------------------------------------------------------------

#[derive(Clone, Copy, Debug, PartialEq, Eq, Serialize, Deserialize, Hash, PartialOrd, Ord)]
pub enum Kind {
    Unified,
    Tcp,
    Http,
    Tls,
}

impl Kind {
    pub const ALL: [Kind; 4] = [Kind::Unified, Kind::Tcp, Kind::Http, Kind::Tls];
    pub fn name(&self) -> &'static str {
        match self {
            Kind::Unified => "unified",
            Kind::Tcp => "tcp",
            Kind::Http => "http",
            Kind::Tls => "tls",
        }
    }
}

#[derive(Clone, Debug, Serialize, Deserialize, PartialEq)]
pub struct SutCfg {
    pub kind: Kind,
    pub cap: usize,
    /// signature database present (TCP/HTTP analyzers; the unified analyzer derives it from `uni`)
    pub with_db: bool,
    pub filter: Option<FilterSpec>,
    /// unified analyzer switches (tcp, http, tls, matcher); None = defaults (all on)
    pub uni: Option<(bool, bool, bool, bool)>,
}

impl SutCfg {
    pub fn new(kind: Kind, cap: usize) -> Self {
        SutCfg { kind, cap, with_db: true, filter: None, uni: None }
    }
}

pub enum Sut {
    Unified(Box<huginn_net::HuginnNet<'static>>, Option<huginn_net_tcp::FilterConfig>),
    Tcp(Box<huginn_net_tcp::HuginnNetTcp>, Box<TtlCache<huginn_net_tcp::ConnectionKey, huginn_net_tcp::TcpTimestamp>>),
    Http(Box<huginn_net_http::HuginnNetHttp>),
    Tls(Box<huginn_net_tls::HuginnNetTls>),
}

pub fn uni_config(c: Option<(bool, bool, bool, bool)>) -> huginn_net::AnalysisConfig {
    match c {
        None => huginn_net::AnalysisConfig::default(),
        Some((tcp, http, tls, m)) => huginn_net::AnalysisConfig { tcp_enabled: tcp, http_enabled: http, tls_enabled: tls, matcher_enabled: m },
    }
}

impl Sut {
    pub fn new(cfg: &SutCfg) -> Result<Sut, String> {
        match cfg.kind {
            Kind::Unified => {
                let ac = uni_config(cfg.uni);
                let dbref = if cfg.with_db { Some(db_static()) } else { None };
                let mut a = huginn_net::HuginnNet::new(dbref, cfg.cap, Some(ac)).map_err(|e| format!("{}", e))?;
                let f = cfg.filter.as_ref().map(filter_tcp);
                if let Some(f) = &f {
                    a = a.with_filter(f.clone());
                }
                Ok(Sut::Unified(Box::new(a), f))
            }
            Kind::Tcp => {
                let mut a = huginn_net_tcp::HuginnNetTcp::new(if cfg.with_db { Some(db()) } else { None }, cfg.cap).map_err(|e| format!("{}", e))?;
                if let Some(f) = &cfg.filter {
                    a = a.with_filter(filter_tcp(f));
                }
                Ok(Sut::Tcp(Box::new(a), Box::new(TtlCache::new(cfg.cap))))
            }
            Kind::Http => {
                let mut a = huginn_net_http::HuginnNetHttp::new(if cfg.with_db { Some(db()) } else { None }, cfg.cap).map_err(|e| format!("{}", e))?;
                if let Some(f) = &cfg.filter {
                    a = a.with_filter(filter_http(f));
                }
                Ok(Sut::Http(Box::new(a)))
            }
            Kind::Tls => {
                let mut a = huginn_net_tls::HuginnNetTls::new(cfg.cap);
                if let Some(f) = &cfg.filter {
                    a = a.with_filter(filter_tls(f));
                }
                Ok(Sut::Tls(Box::new(a)))
            }
        }
    }

    /// One frame through the per-packet path (H3 `verif_process_packet`; `analyze_tcp` for the
    /// unified analyzer, preceded by the same raw filter call its packet loop makes).
    pub fn deliver(&mut self, frame: &[u8]) -> PktOut {
        match self {
            Sut::Unified(a, f) => {
                if let Some(f) = f {
                    if !huginn_net_tcp::raw_filter::apply(frame, f) {
                        return PktOut::default();
                    }
                }
                let r = a.analyze_tcp(frame);
                PktOut { obs: obs_uni(&r), err: None }
            }
            Sut::Tcp(a, tr) => match a.verif_process_packet(frame, tr) {
                Ok(r) => PktOut { obs: obs_tcp(&r), err: None },
                Err(e) => PktOut { obs: vec![], err: Some(err_variant(&format!("{:?}", e))) },
            },
            Sut::Http(a) => match a.verif_process_packet(frame) {
                Ok(r) => PktOut { obs: obs_http(&r), err: None },
                Err(e) => PktOut { obs: vec![], err: Some(err_variant(&format!("{:?}", e))) },
            },
            Sut::Tls(a) => match a.verif_process_packet(frame) {
                Ok(Some(r)) => PktOut { obs: vec![obs_tls(&r)], err: None },
                Ok(None) => PktOut::default(),
                Err(e) => PktOut { obs: vec![], err: Some(err_variant(&format!("{:?}", e))) },
            },
        }
    }
}

#[cfg(not(huginn_net_verif_sched))]
impl Sut {
    /// Fault "the capture source ends and another one starts" (rotated capture files, an interface that went
    /// down and came back): the analyzer's own packet loop is run to completion on a source that ends at once,
    /// then the same instance goes on receiving packets.
    pub fn capture_boundary(&mut self) -> Result<(), String> {
        use std::sync::mpsc;
        macro_rules! empty_run {
            ($a:expr, $errty:ty) => {{
                let (tx, _rx) = mpsc::channel();
                let src = || -> Option<Result<Vec<u8>, $errty>> { None };
                $a.verif_process_with(src, tx, None).map_err(|e| format!("{}", e))
            }};
        }
        match self {
            Sut::Unified(a, _) => empty_run!(a, huginn_net::error::HuginnNetError),
            Sut::Tcp(a, _) => empty_run!(a, huginn_net_tcp::HuginnNetTcpError),
            Sut::Http(a) => empty_run!(a, huginn_net_http::HuginnNetHttpError),
            Sut::Tls(a) => empty_run!(a, huginn_net_tls::HuginnNetTlsError),
        }
    }
}

impl Sut {
    /// the application replaces the filter of a used analyzer instance
    pub fn refilter(self, f: &FilterSpec) -> Sut {
        match self {
            Sut::Unified(a, _) => {
                let ff = filter_tcp(f);
                Sut::Unified(Box::new((*a).with_filter(ff.clone())), Some(ff))
            }
            Sut::Tcp(a, t) => Sut::Tcp(Box::new((*a).with_filter(filter_tcp(f))), t),
            Sut::Http(a) => Sut::Http(Box::new((*a).with_filter(filter_http(f)))),
            Sut::Tls(a) => Sut::Tls(Box::new((*a).with_filter(filter_tls(f)))),
        }
    }
}

fn err_variant(dbg: &str) -> String {
    dbg.split('(').next().unwrap_or("").to_string()
}

/// A timed frame of a trace.
#[derive(Clone, Debug, Serialize, Deserialize, PartialEq)]
pub struct Timed {
    /// simulated arrival time, ns since start of run
    pub t: u64,
    #[serde(with = "crate::pkt::hexser")]
    pub frame: Vec<u8>,
    /// harness tag: which generated connection this frame belongs to (usize::MAX = none)
    pub conn: usize,
}

thread_local! {
    /// fault "the wall clock steps": (simulated time ns, step in ms), applied by `advance_clock_to` when the
    /// simulated time passes them - keyed by time, not by packet, so that a sub-trace replayed alone meets the
    /// same steps at the same moments
    static WALL_JUMPS: std::cell::RefCell<Vec<(u64, i64)>> = const { std::cell::RefCell::new(Vec::new()) };
}

/// Install the wall-clock steps of the run that starts now (call right after `clock::arm`).
pub fn set_wall_jumps(mut v: Vec<(u64, i64)>) {
    v.sort();
    WALL_JUMPS.with(|w| *w.borrow_mut() = v);
}

/// Move the simulated clocks to `t`, applying the wall-clock steps that fall due on the way.
pub fn advance_clock_to(t: u64) {
    loop {
        let due = WALL_JUMPS.with(|w| {
            let mut w = w.borrow_mut();
            if w.first().map(|j| j.0 <= t).unwrap_or(false) {
                Some(w.remove(0))
            } else {
                None
            }
        });
        match due {
            Some((at, ms)) => {
                clock::advance_to_ns(at);
                clock::wall_jump_ms(ms);
            }
            None => break,
        }
    }
    clock::advance_to_ns(t);
}

/// Run a trace through a fresh analyzer with the per-packet path, advancing the simulated clock.
pub fn run_deliver(cfg: &SutCfg, trace: &[Timed]) -> Result<Vec<PktOut>, String> {
    let mut s = Sut::new(cfg)?;
    let mut out = Vec::with_capacity(trace.len());
    for p in trace {
        advance_clock_to(p.t);
        out.push(s.deliver(&p.frame));
    }
    Ok(out)
}

/// Run a trace through a fresh analyzer using the repository's own sequential packet loop.
/// Only meaningful without cfg huginn_net_verif_sched (the loop's channel is std's mpsc there).
#[cfg(not(huginn_net_verif_sched))]
pub fn run_loop(cfg: &SutCfg, trace: &[Timed]) -> Result<Vec<PktOut>, String> {
    run_loop_breaks(cfg, trace, &[])
}

/// As `run_loop`, but the packet source ends before each frame index in `breaks` and the same
/// analyzer instance is started again on the rest (fault: the capture source ends and restarts).
#[cfg(not(huginn_net_verif_sched))]
pub fn run_loop_breaks(cfg: &SutCfg, trace: &[Timed], breaks: &[usize]) -> Result<Vec<PktOut>, String> {
    run_loop_refilter(cfg, trace, breaks, &[])
}

/// As `run_loop_breaks`; in addition, at a break listed in `refilters` the application installs another filter
/// on the same analyzer instance (`with_filter`) before it starts the next capture run.
#[cfg(not(huginn_net_verif_sched))]
pub fn run_loop_refilter(cfg: &SutCfg, trace: &[Timed], breaks: &[usize], refilters: &[(usize, FilterSpec)]) -> Result<Vec<PktOut>, String> {
    use std::cell::RefCell;
    use std::sync::mpsc;
    let n = trace.len();
    let mut ends: Vec<usize> = breaks.iter().cloned().filter(|b| *b > 0 && *b < n).collect();
    ends.sort();
    ends.dedup();
    ends.push(n);
    let stop_at = RefCell::new(n);
    let outs: RefCell<Vec<PktOut>> = RefCell::new(vec![PktOut::default(); n]);
    let idx = RefCell::new(0usize); // number of frames handed over so far

    macro_rules! drive {
        ($a:expr, $errty:ty, $render:expr) => {{
            let (tx, rx) = mpsc::channel();
            let src = || -> Option<Result<Vec<u8>, $errty>> {
                // everything in the channel belongs to the frame handed over last
                let i = *idx.borrow();
                while let Ok(r) = rx.try_recv() {
                    if i > 0 {
                        let mut o = outs.borrow_mut();
                        let mut obs = $render(&r);
                        o[i - 1].obs.append(&mut obs);
                    }
                }
                if i >= *stop_at.borrow() {
                    return None;
                }
                advance_clock_to(trace[i].t);
                *idx.borrow_mut() = i + 1;
                Some(Ok(trace[i].frame.clone()))
            };
            $a.verif_process_with(src, tx, None).map_err(|e| format!("{}", e))?;
        }};
    }

    let mut s = Sut::new(cfg)?;
    for end in ends {
        *stop_at.borrow_mut() = end;
        let start = *idx.borrow();
        if let Some((_, f)) = refilters.iter().find(|(at, _)| *at == start && start > 0) {
            s = s.refilter(f);
        }
        match &mut s {
            Sut::Unified(a, _) => drive!(a, huginn_net::error::HuginnNetError, |r: &huginn_net::output::FingerprintResult| obs_uni(r)),
            Sut::Tcp(a, _) => drive!(a, huginn_net_tcp::HuginnNetTcpError, |r: &huginn_net_tcp::TcpAnalysisResult| obs_tcp(r)),
            Sut::Http(a) => drive!(a, huginn_net_http::HuginnNetHttpError, |r: &huginn_net_http::HttpAnalysisResult| obs_http(r)),
            Sut::Tls(a) => drive!(a, huginn_net_tls::HuginnNetTlsError, |r: &huginn_net_tls::TlsClientOutput| vec![obs_tls(r)]),
        }
    }
    Ok(outs.into_inner())
}

pub fn endpoints_of(e: &Endpoint) -> String {
    ep(&e.ip, e.port)
}
