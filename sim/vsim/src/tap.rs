//! The tap's fault pipeline: what a capture point can do to a frame between the endpoints and the
//! analyzer. Every function reports which fault kind actually fired so evidence counts firings,
//! not configuration.

use crate::rng::Rng;

#[derive(Clone, Copy, Debug, PartialEq, Eq, Hash, PartialOrd, Ord)]
pub enum Fault {
    Truncate,
    BitFlip,
    IhlSet,
    TotalLenLie,
    DataOffsetSet,
    ProtocolSet,
    EthertypeSet,
    OptionRewrite,
    IpVersionSet,
    Ipv6PayloadLenLie,
    AppendJunk,
    ZeroFill,
    /// TCP flag byte set to an anomalous combination (SYN+FIN, SYN+RST, FIN+RST, none, all)
    TcpFlagsSet,
    /// IPv4 fragmentation bits: more-fragments flag or a non-zero fragment offset
    FragmentBits,
}

impl Fault {
    pub fn name(&self) -> &'static str {
        match self {
            Fault::Truncate => "truncate",
            Fault::BitFlip => "bitflip",
            Fault::IhlSet => "byte_set_ihl",
            Fault::TotalLenLie => "byte_set_total_length",
            Fault::DataOffsetSet => "byte_set_data_offset",
            Fault::ProtocolSet => "byte_set_protocol",
            Fault::EthertypeSet => "byte_set_ethertype",
            Fault::OptionRewrite => "option_rewrite",
            Fault::IpVersionSet => "byte_set_ip_version",
            Fault::Ipv6PayloadLenLie => "byte_set_ipv6_payload_length",
            Fault::AppendJunk => "append_junk",
            Fault::ZeroFill => "zero_fill",
            Fault::TcpFlagsSet => "byte_set_tcp_flags",
            Fault::FragmentBits => "byte_set_fragment_bits",
        }
    }
    pub const ALL: [Fault; 14] = [
        Fault::Truncate,
        Fault::BitFlip,
        Fault::IhlSet,
        Fault::TotalLenLie,
        Fault::DataOffsetSet,
        Fault::ProtocolSet,
        Fault::EthertypeSet,
        Fault::OptionRewrite,
        Fault::IpVersionSet,
        Fault::Ipv6PayloadLenLie,
        Fault::AppendJunk,
        Fault::ZeroFill,
        Fault::TcpFlagsSet,
        Fault::FragmentBits,
    ];
}

/// offset of the IP header in an Ethernet-framed frame built by pkt.rs (14), raw (0), or 4-byte loopback
pub fn ip_offset(frame: &[u8]) -> usize {
    if frame.len() > 14 && ((frame[12] == 0x08 && frame[13] == 0x00) || (frame[12] == 0x86 && frame[13] == 0xdd)) {
        14
    } else if frame.len() > 18 && matches!((frame[12], frame[13]), (0x81, 0x00) | (0x88, 0xa8) | (0x91, 0x00)) && ((frame[16] == 0x08 && frame[17] == 0x00) || (frame[16] == 0x86 && frame[17] == 0xdd)) {
        18
    } else if frame.len() > 4 && (frame[0] >> 4 == 4 || frame[0] >> 4 == 6) {
        0
    } else {
        4
    }
}

/// Apply one fault to a frame in place. Returns false if it could not be applied (frame too short).
pub fn apply(r: &mut Rng, f: Fault, frame: &mut Vec<u8>) -> bool {
    let ipo = ip_offset(frame);
    let v4 = frame.get(ipo).map(|b| b >> 4 == 4).unwrap_or(false);
    let ihl = frame.get(ipo).map(|b| (b & 0x0f) as usize * 4).unwrap_or(20);
    let tcpo = if v4 { ipo + ihl } else { ipo + 40 };
    match f {
        Fault::Truncate => {
            if frame.is_empty() {
                return false;
            }
            let n = match r.below(4) {
                0 => r.usize_below(frame.len().min(60)),
                1 => frame.len() - 1 - r.usize_below(frame.len().min(8)),
                _ => r.usize_below(frame.len()),
            };
            frame.truncate(n);
            true
        }
        Fault::BitFlip => {
            if frame.is_empty() {
                return false;
            }
            for _ in 0..r.urange(1, 4) {
                let limit = if r.chance(3, 4) { frame.len().min(80) } else { frame.len() };
                let i = r.usize_below(limit);
                frame[i] ^= 1 << r.below(8);
            }
            true
        }
        Fault::IhlSet => {
            if !v4 || frame.len() <= ipo {
                return false;
            }
            frame[ipo] = 0x40 | r.below(16) as u8;
            true
        }
        Fault::TotalLenLie => {
            if !v4 || frame.len() < ipo + 4 {
                return false;
            }
            let v = match r.below(4) {
                0 => 0u16,
                1 => 0xffff,
                2 => r.below(40) as u16,
                _ => r.u16(),
            };
            frame[ipo + 2] = (v >> 8) as u8;
            frame[ipo + 3] = v as u8;
            true
        }
        Fault::DataOffsetSet => {
            if frame.len() <= tcpo + 12 {
                return false;
            }
            frame[tcpo + 12] = (r.below(16) as u8) << 4 | (frame[tcpo + 12] & 0x0f);
            true
        }
        Fault::ProtocolSet => {
            let off = if v4 { ipo + 9 } else { ipo + 6 };
            if frame.len() <= off {
                return false;
            }
            frame[off] = *r.pick(&[17u8, 1, 0, 41, 58, 255, 6]);
            true
        }
        Fault::EthertypeSet => {
            if ipo != 14 {
                return false;
            }
            let v: u16 = *r.pick(&[0x8100u16, 0x0806, 0x86dd, 0x0800, 0x88a8, 0x0000]);
            frame[12] = (v >> 8) as u8;
            frame[13] = v as u8;
            true
        }
        Fault::OptionRewrite => {
            // rewrite (kind, len) of one TCP option position
            if frame.len() <= tcpo + 20 {
                return false;
            }
            let doff = ((frame[tcpo + 12] >> 4) as usize) * 4;
            if doff <= 20 || frame.len() < tcpo + doff {
                return false;
            }
            let pos = tcpo + 20 + r.usize_below(doff - 20);
            frame[pos] = if r.chance(3, 4) { r.below(9) as u8 } else { r.u8() };
            if pos + 1 < tcpo + doff {
                frame[pos + 1] = match r.below(4) {
                    0 => 0,
                    1 => 1,
                    2 => r.below(42) as u8,
                    _ => r.u8(),
                };
            }
            true
        }
        Fault::IpVersionSet => {
            if frame.len() <= ipo {
                return false;
            }
            frame[ipo] = (r.below(16) as u8) << 4 | (frame[ipo] & 0x0f);
            true
        }
        Fault::Ipv6PayloadLenLie => {
            if v4 || frame.len() < ipo + 6 {
                return false;
            }
            let v = r.u16();
            frame[ipo + 4] = (v >> 8) as u8;
            frame[ipo + 5] = v as u8;
            true
        }
        Fault::AppendJunk => {
            let n = r.urange(1, 64);
            frame.extend_from_slice(&r.bytes(n));
            true
        }
        Fault::TcpFlagsSet => {
            if frame.len() <= tcpo + 13 {
                return false;
            }
            frame[tcpo + 13] = *r.pick(&[0x03u8, 0x06, 0x05, 0x00, 0xff, 0x08, 0x29, 0x07, 0x12 | 0x01]);
            true
        }
        Fault::FragmentBits => {
            if !v4 || frame.len() < ipo + 8 {
                return false;
            }
            if r.chance(1, 2) {
                frame[ipo + 6] |= 0x20; // more fragments
            } else {
                frame[ipo + 6] = (frame[ipo + 6] & 0xe0) | (r.below(32) as u8);
                frame[ipo + 7] = r.u8() | 1;
            }
            true
        }
        Fault::ZeroFill => {
            if frame.len() < 8 {
                return false;
            }
            let a = r.usize_below(frame.len());
            let b = (a + r.urange(1, 24)).min(frame.len());
            for x in &mut frame[a..b] {
                *x = 0;
            }
            true
        }
    }
}

/// A garbage frame spliced between valid ones.
pub fn splice(r: &mut Rng) -> Vec<u8> {
    match r.below(6) {
        0 => vec![],
        1 => r.bytes(r.clone().urange(1, 13)),
        2 => {
            let n = r.urange(14, 80);
            let mut f = r.bytes(n);
            f[12] = 0x08;
            f[13] = 0x00;
            f
        }
        3 => {
            let n = r.urange(20, 80);
            let mut f = r.bytes(n);
            f[0] = 0x45;
            f[9] = 6;
            f
        }
        4 => {
            let n = r.urange(24, 90);
            let mut f = r.bytes(n);
            f[0] = 0x1e;
            f[1] = 0;
            f[4] = 0x45;
            f
        }
        _ => {
            let n = r.urange(40, 100);
            let mut f = r.bytes(n);
            f[0] = 0x60;
            f[6] = 6;
            f
        }
    }
}
