//! Simulated connections: scripts of segments with per-connection timelines, and the
//! order-preserving merge of several scripts into one trace (the "network" of C07/C10/C15/C20).

use crate::gen::{http1, http2, tcp, tls};
use crate::pkt::{self, Endpoint, Framing, Seg};
use crate::rng::Rng;
use crate::sut::Timed;
use serde::{Deserialize, Serialize};

#[derive(Clone, Copy, Debug, PartialEq, Eq, Serialize, Deserialize)]
pub enum ConnKind {
    TcpOnly,
    Tls,
    Http1,
    Http2,
    Http2Hostile,
    Garbage,
    /// a TLS client talking to a plain-HTTP port: single-segment ClientHello, answered in clear text
    /// with an HTTP/1.1 error response on the same connection
    TlsThenHttpResponse,
    /// reverse HTTP: the side that opened the connection sends a response-shaped message and the other side a
    /// request-shaped one (callback / reverse-proxy tunnels; also what a capture with client and server confused shows)
    Http1Reversed,
    /// the side that ACCEPTED the TCP connection is the TLS client (active-mode data connections, callbacks,
    /// reverse tunnels): the ClientHello travels against the direction of the SYN
    TlsReversed,
}

#[derive(Clone, Debug, Serialize, Deserialize)]
pub struct Step {
    /// gap before this packet on the connection's own timeline (ns)
    pub dt_ns: u64,
    pub seg: Seg,
}

#[derive(Clone, Debug, Serialize, Deserialize)]
pub struct Conn {
    pub kind: ConnKind,
    pub client: Endpoint,
    pub server: Endpoint,
    pub framing: Framing,
    pub steps: Vec<Step>,
    /// raw frames that replace `steps[i]`'s built frame (used for corrupted/garbage traffic): (index, hex)
    #[serde(default)]
    pub raw_override: Vec<(usize, String)>,
}

impl Conn {
    pub fn frame(&self, i: usize) -> Vec<u8> {
        if let Some((_, h)) = self.raw_override.iter().find(|(k, _)| *k == i) {
            return pkt::unhex(h);
        }
        pkt::frame(&self.steps[i].seg, self.framing)
    }
}

fn cut_stream(r: &mut Rng, len: usize, max_parts: usize) -> Vec<(usize, usize)> {
    if len == 0 {
        return vec![];
    }
    let parts = r.urange(1, max_parts.max(1));
    let cuts = r.cuts(len, parts);
    let mut v = vec![];
    let mut a = 0;
    for c in cuts {
        v.push((a, c));
        a = c;
    }
    v.push((a, len));
    v
}

pub struct ConnOpts {
    pub v6: bool,
    pub framing: Framing,
    /// maximum number of segments per direction for application data
    pub max_parts: usize,
    /// per-packet gap range on the connection's timeline (ns)
    pub gap_lo: u64,
    pub gap_hi: u64,
    /// single-segment ClientHello only (C20: the unified analyzer's TLS path is stateless)
    pub tls_single_segment: bool,
}

impl Default for ConnOpts {
    fn default() -> Self {
        ConnOpts { v6: false, framing: Framing::Ethernet, max_parts: 4, gap_lo: 100_000, gap_hi: 40_000_000, tls_single_segment: false }
    }
}

/// Build one connection of the given kind between the given endpoints.
pub fn build(r: &mut Rng, kind: ConnKind, client: Endpoint, server: Endpoint, o: &ConnOpts) -> Conn {
    let hc = tcp::Host::random(r);
    let hs = tcp::Host::random(r);
    let isn_c = r.u32();
    let isn_s = r.u32();
    let mut steps: Vec<Step> = vec![];
    let mut t: u64 = 0; // connection-local time for timestamp clocks
    let gap = |r: &mut Rng, t: &mut u64| -> u64 {
        let g = r.range(o.gap_lo, o.gap_hi);
        *t += g;
        g
    };
    // handshake
    let g = gap(r, &mut t);
    steps.push(Step { dt_ns: g, seg: tcp::syn(&hc, client, server, isn_c, t) });
    let g = gap(r, &mut t);
    steps.push(Step { dt_ns: g, seg: tcp::syn_ack(&hs, client, server, isn_s, isn_c, t, hc.tsval(t)) });
    let g = gap(r, &mut t);
    steps.push(Step { dt_ns: g, seg: tcp::data(&hc, client, server, isn_c.wrapping_add(1), isn_s.wrapping_add(1), vec![], t, hs.tsval(t), pkt::ACK) });

    let mut forced_cut_c: Option<usize> = None;
    let (cstream, sstream): (Vec<u8>, Vec<u8>) = match kind {
        ConnKind::TcpOnly => (vec![], vec![]),
        ConnKind::Tls => {
            let mut spec = tls::random_spec(r, if o.tls_single_segment { 1200 } else { 6000 });
            if o.tls_single_segment {
                spec.target_len = spec.target_len.min(1200);
            }
            // record bodies exactly at and around the protocol's limits, one hello in sixteen (whole, in one segment when
            // the scenario asks for single-segment hellos: a large-MTU or offloaded capture)
            if r.chance(1, 16) {
                spec.exact_body = Some(*r.pick(&[16383usize, 16384, 16385, 16639, 16640, 16641, 255, 256, 65535 - 5]));
            }
            // one hello in sixteen is the smallest a parser accepts (47..50 bytes)
            let mut c = if r.chance(1, 16) { tls::tiny_hello(r) } else { tls::client_hello(r, &spec) };
            if !o.tls_single_segment {
                let ok = c.len() <= 16000;
                c.extend_from_slice(&tls::trailing_opt(r, ok));
            }
            let s = tls::non_hello_handshake(r);
            (c, s)
        }
        ConnKind::Http1 => {
            let (rq, rs) = if r.chance(1, 8) { (http1::exotic_request(r), http1::exotic_response(r)) } else { (http1::request(r, 300), http1::response(r, 600)) };
            // one request in six is written to match a signature of the database
            let rq = match (r.chance(1, 6), http1::request_from_signature(r)) {
                (true, Some(m)) => m,
                _ => rq,
            };
            // one exchange in twelve uses bare-LF line ends in its heads, with bodies that contain CRLF CRLF
            let (rq, rs) = if r.chance(1, 12) { (http1::lf_variant(r, rq), http1::lf_variant(r, rs)) } else { (rq, rs) };
            // one request in twelve carries, as the value of its last header, bytes that are also a complete
            // ClientHello record, and the segment boundary falls exactly in front of them
            match (r.chance(1, 12), tls::ascii_client_hello(r)) {
                (true, Some(hello)) => {
                    let mut b = format!("POST /upload/{} HTTP/1.1\r\nHost: blob{}.example.test\r\nUser-Agent: curl/8.4.0\r\nX-Blob: ", r.below(1000), r.below(100)).into_bytes();
                    forced_cut_c = Some(b.len());
                    b.extend_from_slice(&hello);
                    b.extend_from_slice(b"\r\n\r\n");
                    (b, rs.bytes)
                }
                _ => (rq.bytes, rs.bytes),
            }
        }
        ConnKind::Http2 | ConnKind::Http2Hostile => {
            let hostile = if kind == ConnKind::Http2Hostile { *r.pick(&[http2::Hostile::SizeZero, http2::Hostile::SizeZeroThenBogus, http2::Hostile::SizeZeroThenBogus, http2::Hostile::PolluteThenBogus, http2::Hostile::SizeHuge, http2::Hostile::BogusRef, http2::Hostile::Polluter]) } else { http2::Hostile::None };
            let self_ref = kind == ConnKind::Http2 && r.chance(2, 3);
            // a connection may announce a large SETTINGS_MAX_FRAME_SIZE (which binds only its peer), and a
            // connection may contain a frame above the default limit before its HEADERS
            let announce = kind == ConnKind::Http2Hostile && r.chance(1, 2);
            let big = if kind == ConnKind::Http2 && r.chance(1, 5) { Some(r.urange(16385, 30000)) } else { None };
            let busy = if kind == ConnKind::Http2 && r.chance(1, 16) { r.urange(90, 200) } else { 0 };
            let (rq, _) = http2::connection_start(r, &http2::Opts { request: true, hostile: if announce { http2::Hostile::None } else { hostile }, fancy_headers: false, odd_order: false, self_ref, continuation: false, big_frame: big, announce_max_frame: announce, huge_block: 0, extra_streams: busy, leading_frames: 0 });
            let hostile_s = if kind == ConnKind::Http2Hostile && r.chance(1, 2) { *r.pick(&[http2::Hostile::SizeZero, http2::Hostile::SizeZeroThenBogus]) } else { http2::Hostile::None };
            let self_ref_s = kind == ConnKind::Http2 && r.chance(1, 2);
            let (rs, _) = http2::connection_start(r, &http2::Opts { request: false, hostile: hostile_s, fancy_headers: false, odd_order: false, self_ref: self_ref_s, continuation: false, big_frame: None, announce_max_frame: false, huge_block: 0, extra_streams: 0, leading_frames: 0 });
            (rq, rs)
        }
        ConnKind::TlsThenHttpResponse => {
            let mut spec = tls::random_spec(r, 900);
            spec.target_len = spec.target_len.min(900);
            let c = tls::client_hello(r, &spec);
            let s = http1::response(r, 100).bytes;
            (c, s)
        }
        ConnKind::TlsReversed => {
            let mut spec = tls::random_spec(r, if o.tls_single_segment { 1200 } else { 4000 });
            spec.target_len = spec.target_len.min(if o.tls_single_segment { 1200 } else { 4000 });
            (tls::non_hello_handshake(r), tls::client_hello(r, &spec))
        }
        ConnKind::Http1Reversed => {
            let (rq, rs) = (http1::request(r, 200), http1::response(r, 300));
            (rs.bytes, rq.bytes)
        }
        ConnKind::Garbage => {
            let n = r.urange(1, 400);
            let m = r.urange(0, 400);
            // one in three: well-framed but degenerate TLS records (empty bodies, bare handshake headers)
            if r.chance(1, 3) {
                (tls::degenerate(r), if r.chance(1, 2) { tls::degenerate(r) } else { r.bytes(m) })
            } else {
                (r.bytes(n), r.bytes(m))
            }
        }
    };
    let parts_c = if (kind == ConnKind::Tls && o.tls_single_segment) || kind == ConnKind::TlsThenHttpResponse { 1 } else { o.max_parts };
    let mut seq_c = isn_c.wrapping_add(1);
    let c_parts = match forced_cut_c {
        Some(p) if p > 0 && p < cstream.len() => vec![(0, p), (p, cstream.len())],
        _ => cut_stream(r, cstream.len(), parts_c),
    };
    for (a, b) in c_parts {
        let g = gap(r, &mut t);
        steps.push(Step { dt_ns: g, seg: tcp::data(&hc, client, server, seq_c, isn_s.wrapping_add(1), cstream[a..b].to_vec(), t, hs.tsval(t), pkt::ACK | pkt::PSH) });
        seq_c = seq_c.wrapping_add((b - a) as u32);
    }
    let mut seq_s = isn_s.wrapping_add(1);
    for (a, b) in cut_stream(r, sstream.len(), o.max_parts) {
        let g = gap(r, &mut t);
        steps.push(Step { dt_ns: g, seg: tcp::data(&hs, server, client, seq_s, seq_c, sstream[a..b].to_vec(), t, hc.tsval(t), pkt::ACK | pkt::PSH) });
        seq_s = seq_s.wrapping_add((b - a) as u32);
    }
    // a couple of further ACKs so that uptime estimation has something to compare (TcpOnly especially)
    let extra = if kind == ConnKind::TcpOnly { r.urange(1, 4) } else { r.urange(0, 1) };
    for _ in 0..extra {
        let g = gap(r, &mut t) + r.range(0, 300_000_000);
        t += g;
        let from_client = r.chance(1, 2);
        let (h, a, b, sq, ak, ecr) = if from_client { (&hc, client, server, seq_c, seq_s, hs.tsval(t)) } else { (&hs, server, client, seq_s, seq_c, hc.tsval(t)) };
        steps.push(Step { dt_ns: g, seg: tcp::data(h, a, b, sq, ak, vec![], t, ecr, pkt::ACK) });
    }
    // teardown, for one connection in three: FIN on the last data segment of a side or as a bare segment,
    // sometimes a reset (bare or with a few bytes) as the very last thing
    if r.chance(1, 3) {
        for from_client in [true, false] {
            match r.below(3) {
                0 => {
                    // FIN rides on that side's last data segment
                    if let Some(st) = steps.iter_mut().rev().find(|st| (st.seg.src == client) == from_client && !st.seg.payload.is_empty()) {
                        st.seg.flags |= pkt::FIN;
                    }
                }
                1 => {
                    let g = gap(r, &mut t);
                    let (h, a, b, sq, ak, ecr) = if from_client { (&hc, client, server, seq_c, seq_s, hs.tsval(t)) } else { (&hs, server, client, seq_s, seq_c, hc.tsval(t)) };
                    steps.push(Step { dt_ns: g, seg: tcp::data(h, a, b, sq, ak, vec![], t, ecr, pkt::ACK | pkt::FIN) });
                }
                _ => {}
            }
        }
        if r.chance(1, 4) {
            let g = gap(r, &mut t);
            let from_client = r.chance(1, 2);
            let n = if r.chance(1, 2) { 0 } else { r.urange(1, 20) };
            let body = r.bytes(n);
            let (h, a, b, sq, ak, ecr) = if from_client { (&hc, client, server, seq_c, seq_s, hs.tsval(t)) } else { (&hs, server, client, seq_s, seq_c, hc.tsval(t)) };
            steps.push(Step { dt_ns: g, seg: tcp::data(h, a, b, sq, ak, body, t, ecr, pkt::ACK | pkt::RST) });
        }
    }
    // TCP Fast Open, one connection in eight: the client's first data segment rides on its SYN (the data keeps its
    // sequence number, one past the SYN's own)
    if r.chance(1, 8) {
        let syn_at = steps.iter().position(|st| st.seg.src == client && st.seg.flags & pkt::SYN != 0 && st.seg.flags & pkt::ACK == 0);
        let data_at = steps.iter().position(|st| st.seg.src == client && st.seg.flags & pkt::SYN == 0 && !st.seg.payload.is_empty());
        if let (Some(si), Some(di)) = (syn_at, data_at) {
            if steps[di].seg.seq == steps[si].seg.seq.wrapping_add(1) && steps[si].seg.payload.is_empty() && steps[di].seg.flags & (pkt::FIN | pkt::RST) == 0 {
                let moved = steps.remove(di);
                steps[si].seg.payload = moved.seg.payload;
            }
        }
    }
    // header fields without bearing on the byte stream: on one connection in ten data segments carry the urgent flag
    // with a pointer inside, at the end of or beyond the segment (or a pointer without the flag), and ECN bits
    if r.chance(1, 10) {
        for st in steps.iter_mut().filter(|st| !st.seg.payload.is_empty()) {
            let n = st.seg.payload.len() as u64;
            match r.below(4) {
                0 => {
                    st.seg.flags |= 0x20;
                    st.seg.urg_ptr = 1 + r.below(n) as u16;
                }
                1 => {
                    st.seg.flags |= 0x20;
                    st.seg.urg_ptr = (n as u16).wrapping_add(r.below(40) as u16);
                }
                2 => st.seg.urg_ptr = 1 + r.below(n) as u16,
                _ => {}
            }
            if r.chance(1, 4) {
                st.seg.flags |= *r.pick(&[0x40u8, 0x80, 0xc0]);
            }
        }
    }
    // link layer: one connection in five is captured on the wire (short frames zero-padded to the 60-byte minimum),
    // one in twenty with a few trailer bytes after every IP packet
    match r.below(20) {
        0..=3 => {
            for st in steps.iter_mut() {
                st.seg.trailer = 1;
            }
        }
        4 => {
            let n = 2 + r.below(8) as u8;
            for st in steps.iter_mut() {
                st.seg.trailer = n;
            }
        }
        _ => {}
    }
    // hop counts vary: on one connection in eight either side's packets arrive with an arbitrary TTL
    if r.chance(1, 8) {
        let from_client = r.chance(2, 3);
        let t = 1 + r.below(255) as u8;
        for st in steps.iter_mut().filter(|st| (st.seg.src == client) == from_client) {
            st.seg.ttl = t;
        }
    }
    // IPv6 extension headers in front of TCP (hop-by-hop, destination options, routing): on one IPv6 connection in
    // twelve every packet carries them, on one in twenty-four only the data segments do
    if !client.is_v4() {
        let which = r.below(24);
        if which < 3 {
            let ext: Vec<u8> = match r.below(4) {
                0 => vec![0],
                1 => vec![60],
                2 => vec![0, 60],
                _ => vec![43],
            };
            for st in steps.iter_mut().filter(|st| which < 2 || !st.seg.payload.is_empty()) {
                st.seg.v6_ext = ext.clone();
            }
        }
    }
    // every host has a NIC; frames towards the server carry (server mac, client mac) and vice versa
    let (cm, sm) = (pkt::mac(r), pkt::mac(r));
    for st in steps.iter_mut() {
        let (d, s) = if st.seg.src == client { (sm, cm) } else { (cm, sm) };
        let mut e = d.to_vec();
        e.extend_from_slice(&s);
        st.seg.eth = e;
    }
    Conn { kind, client, server, framing: o.framing, steps, raw_override: vec![] }
}

/// Distinct 4-tuples that deliberately share addresses, ports and servers.
pub fn endpoints(r: &mut Rng, n: usize, v6: bool) -> Vec<(Endpoint, Endpoint)> {
    let mut out: Vec<(Endpoint, Endpoint)> = vec![];
    let mk = |host: u8, port: u16| -> Endpoint {
        if v6 {
            Endpoint::v6(host as u16, port)
        } else {
            Endpoint::v4(10, 0, 0, host, port)
        }
    };
    let mut guard = 0;
    while out.len() < n && guard < 1000 {
        guard += 1;
        let chost = 1 + r.below(3) as u8;
        let shost = 10 + r.below(2) as u8;
        let cport = 40000 + r.below(6) as u16;
        let sport = *r.pick(&[80u16, 443, 8080, 80]);
        let (c, s) = match r.below(8) {
            // roles swapped on the same host pair: the "server" host opens a connection back
            0 => (mk(shost, cport), mk(chost, sport)),
            _ => (mk(chost, cport), mk(shost, sport)),
        };
        if c == s {
            continue;
        }
        // directed tuples must be distinct, and so must their reversals (a connection is one 4-tuple)
        if out.iter().any(|(a, b)| (*a == c && *b == s) || (*a == s && *b == c)) {
            continue;
        }
        out.push((c, s));
    }
    // key neighbours: one set in two has a connection whose 4-tuple is a component mix of another's (hosts
    // swapped with one port used on both sides, or the same hosts with one port doubled) - what a flow key built
    // with a slipped index or a half-sorted tuple would confuse with it
    if out.len() >= 2 && r.chance(1, 2) {
        let i = r.usize_below(out.len());
        let (c, s) = out[i];
        let ep = |ip: std::net::IpAddr, port: u16| Endpoint { ip, port };
        let nb = match r.below(4) {
            0 => (ep(s.ip, s.port), ep(c.ip, s.port)),
            1 => (ep(s.ip, c.port), ep(c.ip, c.port)),
            2 => (ep(c.ip, s.port), ep(s.ip, s.port)),
            _ => (ep(c.ip, c.port), ep(s.ip, c.port)),
        };
        let j = (i + 1 + r.usize_below(out.len() - 1)) % out.len();
        if nb.0 != nb.1 && !out.iter().enumerate().any(|(k, (a, b))| k != j && ((*a == nb.0 && *b == nb.1) || (*a == nb.1 && *b == nb.0))) {
            out[j] = nb;
        }
    }
    out
}

#[derive(Clone, Copy, Debug, PartialEq, Eq, Serialize, Deserialize)]
pub enum MergeMode {
    Uniform,
    RoundRobin,
    Bursts,
    /// the first connection completely first (hostile-first)
    FirstFirst,
}

/// Order-preserving merge: returns the sequence of connection indices.
pub fn merge_order(r: &mut Rng, lens: &[usize], mode: MergeMode) -> Vec<usize> {
    let n = lens.len();
    let mut next = vec![0usize; n];
    let total: usize = lens.iter().sum();
    let mut out = Vec::with_capacity(total);
    let mut rr = 0usize;
    let mut burst: Option<(usize, usize)> = None;
    while out.len() < total {
        let live: Vec<usize> = (0..n).filter(|i| next[*i] < lens[*i]).collect();
        let pick = match mode {
            MergeMode::Uniform => {
                // weight by remaining length so every merge order is (roughly) equally likely
                let rem: usize = live.iter().map(|i| lens[*i] - next[*i]).sum();
                let mut x = r.usize_below(rem);
                let mut p = live[0];
                for i in &live {
                    let k = lens[*i] - next[*i];
                    if x < k {
                        p = *i;
                        break;
                    }
                    x -= k;
                }
                p
            }
            MergeMode::RoundRobin => {
                while !live.contains(&(rr % n)) {
                    rr += 1;
                }
                let p = rr % n;
                rr += 1;
                p
            }
            MergeMode::Bursts => match burst {
                Some((c, k)) if k > 0 && live.contains(&c) => {
                    burst = Some((c, k - 1));
                    c
                }
                _ => {
                    let c = *r.pick(&live);
                    burst = Some((c, r.urange(0, 5)));
                    c
                }
            },
            MergeMode::FirstFirst => {
                if live.contains(&0) {
                    0
                } else {
                    *r.pick(&live)
                }
            }
        };
        next[pick] += 1;
        out.push(pick);
    }
    out
}

/// Turn connections + a merge order into a timed trace. A packet's arrival time is the later of
/// (previous arrival in the trace) and (its connection's previous packet + its own gap).
pub fn to_trace(conns: &[Conn], order: &[usize]) -> Vec<Timed> {
    let mut next = vec![0usize; conns.len()];
    let mut last_t = vec![0u64; conns.len()];
    let mut now = 0u64;
    let mut out = Vec::with_capacity(order.len());
    for &ci in order {
        if ci >= conns.len() {
            continue;
        }
        let k = next[ci];
        if k >= conns[ci].steps.len() {
            continue;
        }
        let t = (last_t[ci] + conns[ci].steps[k].dt_ns).max(now + 1_000);
        now = t;
        last_t[ci] = t;
        next[ci] += 1;
        out.push(Timed { t, frame: conns[ci].frame(k), conn: ci });
    }
    out
}
