//! Logging as a configuration dimension. The code under test logs through `tracing`; with no
//! subscriber installed the arguments of its log statements are never evaluated, so an index or a
//! slice inside a `debug!`/`error!` argument list is dead code for the simulation although every
//! real deployment that logs executes it. This subscriber accepts every level while the current
//! run has logging switched on, and formats every field of every event (into a thread-local sink)
//! so that argument expressions and `Debug`/`Display` implementations really run.

use std::cell::{Cell, RefCell};
use std::fmt::Write as _;
use tracing::field::{Field, Visit};
use tracing::span;
use tracing::subscriber::Interest;
use tracing::{Event, Metadata, Subscriber};

thread_local! {
    // on by default: replays, minimisation and anything outside a seeded batch run with logging enabled
    static ON: Cell<bool> = const { Cell::new(true) };
    static SINK: RefCell<String> = const { RefCell::new(String::new()) };
    static EVENTS: Cell<u64> = const { Cell::new(0) };
}

pub fn set(on: bool) {
    ON.with(|c| c.set(on));
}

pub fn is_on() -> bool {
    ON.with(|c| c.get())
}

/// number of log events formatted on this thread since the last call
pub fn take_events() -> u64 {
    EVENTS.with(|c| c.replace(0))
}

static PRINT: std::sync::OnceLock<bool> = std::sync::OnceLock::new();

struct Sink;

impl Visit for Sink {
    fn record_debug(&mut self, field: &Field, value: &dyn std::fmt::Debug) {
        SINK.with(|s| {
            let mut s = s.borrow_mut();
            if s.len() > 4096 {
                s.clear();
            }
            let _ = write!(s, "{}={:?} ", field.name(), value);
        });
    }
}

struct Sub;

impl Subscriber for Sub {
    fn register_callsite(&self, _m: &'static Metadata<'static>) -> Interest {
        Interest::sometimes()
    }
    fn enabled(&self, _m: &Metadata<'_>) -> bool {
        is_on()
    }
    fn max_level_hint(&self) -> Option<tracing::level_filters::LevelFilter> {
        Some(tracing::level_filters::LevelFilter::TRACE)
    }
    fn new_span(&self, attrs: &span::Attributes<'_>) -> span::Id {
        attrs.record(&mut Sink);
        span::Id::from_u64(1)
    }
    fn record(&self, _span: &span::Id, values: &span::Record<'_>) {
        values.record(&mut Sink);
    }
    fn record_follows_from(&self, _span: &span::Id, _follows: &span::Id) {}
    fn event(&self, event: &Event<'_>) {
        if *PRINT.get_or_init(|| std::env::var("VSIM_LOG").is_ok()) {
            // diagnosis aid: VSIM_LOG=1 vsim replay FILE prints what the code under test logs
            SINK.with(|s| s.borrow_mut().clear());
            event.record(&mut Sink);
            SINK.with(|s| eprintln!("[{}] {}", event.metadata().target(), s.borrow()));
        } else {
            event.record(&mut Sink);
        }
        EVENTS.with(|c| c.set(c.get() + 1));
    }
    fn enter(&self, _span: &span::Id) {}
    fn exit(&self, _span: &span::Id) {}
}

pub fn install() {
    let _ = tracing::subscriber::set_global_default(Sub);
}
