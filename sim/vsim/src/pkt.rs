//! Frame construction for the simulated endpoints and tap: Ethernet / raw IP / NULL-loopback
//! framing, IPv4 (with options) and IPv6, TCP with arbitrary option bytes.

use serde::{Deserialize, Serialize};
use std::net::{IpAddr, Ipv4Addr, Ipv6Addr};

pub const FIN: u8 = 0x01;
pub const SYN: u8 = 0x02;
pub const RST: u8 = 0x04;
pub const PSH: u8 = 0x08;
pub const ACK: u8 = 0x10;

#[derive(Clone, Copy, Debug, PartialEq, Eq, Hash, Serialize, Deserialize, PartialOrd, Ord)]
pub struct Endpoint {
    pub ip: IpAddr,
    pub port: u16,
}

impl Endpoint {
    pub fn v4(a: u8, b: u8, c: u8, d: u8, port: u16) -> Self {
        Endpoint { ip: IpAddr::V4(Ipv4Addr::new(a, b, c, d)), port }
    }
    pub fn v6(last: u16, port: u16) -> Self {
        Endpoint { ip: IpAddr::V6(Ipv6Addr::new(0x2001, 0xdb8, 0, 0, 0, 0, 0x1000, last)), port }
    }
    pub fn is_v4(&self) -> bool {
        self.ip.is_ipv4()
    }
}

#[derive(Clone, Copy, Debug, PartialEq, Eq, Serialize, Deserialize)]
pub enum Framing {
    Ethernet,
    RawIp,
    /// 4-byte NULL/loopback header `1e 00 00 00` (the only NULL form packet_parser.rs accepts)
    Null1e,
    /// 4-byte loopback header carrying AF_INET(2) / AF_INET6(30) in native byte order (what raw_filter.rs reads)
    NullAf,
    /// 4-byte loopback header whose address-family word is written in a chosen byte order: what captures
    /// taken on another platform carry (AF_INET6 is 10, 24, 28 or 30 depending on the OS; a big-endian
    /// capture host writes the word the other way round)
    NullFamily { fam: u8, big_endian: bool },
    /// Ethernet with one 802.1Q / 802.1ad tag (trunk and mirror ports): TPID, TCI, then the real EtherType
    Vlan { tpid: u16, tci: u16 },
    /// Linux cooked capture (`tcpdump -i any`, DLT_LINUX_SLL): packet type, ARPHRD, address length, 8 address
    /// bytes, then the protocol - 16 bytes in front of the IP packet. None of the parsers reads it; the frames
    /// must be ignored by filter and analysis alike
    Sll { pkttype: u8 },
}

#[derive(Clone, Debug, Serialize, Deserialize)]
pub struct Seg {
    pub src: Endpoint,
    pub dst: Endpoint,
    pub seq: u32,
    pub ack: u32,
    pub flags: u8,
    pub window: u16,
    /// raw TCP option bytes (padded by the builder to a multiple of 4 with zeros)
    pub tcp_opts: Vec<u8>,
    pub payload: Vec<u8>,
    pub ttl: u8,
    pub ip_id: u16,
    pub df: bool,
    pub tos: u8,
    /// raw IPv4 option bytes (multiple of 4); ignored for IPv6
    pub ip_opts: Vec<u8>,
    pub flow_label: u32,
    pub urg_ptr: u16,
    /// Ethernet destination + source address (12 bytes) used when the segment is Ethernet-framed; empty = default
    #[serde(default)]
    pub eth: Vec<u8>,
    /// link-layer bytes after the IP packet: 0 = none, 1 = zero padding up to the 60-byte Ethernet minimum (what a
    /// capture on the wire shows for short segments), n >= 2 = n-1 arbitrary trailer bytes (FCS, vendor trailers)
    #[serde(default)]
    pub trailer: u8,
    /// IPv6 only: extension headers between the fixed header and TCP, by their next-header codes in order
    /// (0 hop-by-hop, 60 destination options, 43 routing), eight bytes each
    #[serde(default)]
    pub v6_ext: Vec<u8>,
}

impl Seg {
    pub fn new(src: Endpoint, dst: Endpoint) -> Self {
        Seg {
            src,
            dst,
            seq: 0,
            ack: 0,
            flags: 0,
            window: 65535,
            tcp_opts: vec![],
            payload: vec![],
            ttl: 64,
            ip_id: 0x1234,
            df: true,
            tos: 0,
            ip_opts: vec![],
            flow_label: 0,
            urg_ptr: 0,
            eth: vec![],
            trailer: 0,
            v6_ext: vec![],
        }
    }
}

pub mod opt {
    pub fn mss(v: u16) -> Vec<u8> {
        vec![2, 4, (v >> 8) as u8, v as u8]
    }
    pub fn ws(v: u8) -> Vec<u8> {
        vec![3, 3, v]
    }
    pub fn sackok() -> Vec<u8> {
        vec![4, 2]
    }
    pub fn ts(val: u32, ecr: u32) -> Vec<u8> {
        let mut o = vec![8, 10];
        o.extend_from_slice(&val.to_be_bytes());
        o.extend_from_slice(&ecr.to_be_bytes());
        o
    }
    pub fn nop() -> Vec<u8> {
        vec![1]
    }
    pub fn eol() -> Vec<u8> {
        vec![0]
    }
}

fn csum16(data: &[u8]) -> u16 {
    let mut s: u32 = 0;
    let mut i = 0;
    while i + 1 < data.len() {
        s += u16::from_be_bytes([data[i], data[i + 1]]) as u32;
        i += 2;
    }
    if i < data.len() {
        s += (data[i] as u32) << 8;
    }
    while s >> 16 != 0 {
        s = (s & 0xffff) + (s >> 16);
    }
    !(s as u16)
}

/// TCP header + payload
pub fn tcp_bytes(s: &Seg) -> Vec<u8> {
    let mut opts = s.tcp_opts.clone();
    while opts.len() % 4 != 0 {
        opts.push(0);
    }
    if opts.len() > 40 {
        opts.truncate(40);
    }
    let doff = 5 + opts.len() / 4;
    let mut t = Vec::with_capacity(20 + opts.len() + s.payload.len());
    t.extend_from_slice(&s.src.port.to_be_bytes());
    t.extend_from_slice(&s.dst.port.to_be_bytes());
    t.extend_from_slice(&s.seq.to_be_bytes());
    t.extend_from_slice(&s.ack.to_be_bytes());
    t.push((doff as u8) << 4);
    t.push(s.flags);
    t.extend_from_slice(&s.window.to_be_bytes());
    t.extend_from_slice(&[0, 0]);
    t.extend_from_slice(&s.urg_ptr.to_be_bytes());
    t.extend_from_slice(&opts);
    t.extend_from_slice(&s.payload);
    t
}

/// IP packet (v4 or v6 chosen by the address family of `src`)
pub fn ip_bytes(s: &Seg) -> Vec<u8> {
    let tcp = tcp_bytes(s);
    match (s.src.ip, s.dst.ip) {
        (IpAddr::V4(a), IpAddr::V4(b)) => {
            let mut ipo = s.ip_opts.clone();
            while ipo.len() % 4 != 0 {
                ipo.push(0);
            }
            if ipo.len() > 40 {
                ipo.truncate(40);
            }
            let ihl = 5 + ipo.len() / 4;
            let total = ihl * 4 + tcp.len();
            let mut p = Vec::with_capacity(total);
            p.push(0x40 | ihl as u8);
            p.push(s.tos);
            p.extend_from_slice(&(total.min(65535) as u16).to_be_bytes());
            p.extend_from_slice(&s.ip_id.to_be_bytes());
            p.extend_from_slice(&[if s.df { 0x40 } else { 0 }, 0]);
            p.push(s.ttl);
            p.push(6);
            p.extend_from_slice(&[0, 0]);
            p.extend_from_slice(&a.octets());
            p.extend_from_slice(&b.octets());
            p.extend_from_slice(&ipo);
            let c = csum16(&p);
            p[10] = (c >> 8) as u8;
            p[11] = c as u8;
            p.extend_from_slice(&tcp);
            p
        }
        (IpAddr::V6(a), IpAddr::V6(b)) => {
            let mut p = Vec::with_capacity(40 + tcp.len());
            let w0: u32 = (6u32 << 28) | ((s.tos as u32) << 20) | (s.flow_label & 0xfffff);
            p.extend_from_slice(&w0.to_be_bytes());
            p.extend_from_slice(&((tcp.len() + 8 * s.v6_ext.len()).min(65535) as u16).to_be_bytes());
            p.push(s.v6_ext.first().copied().unwrap_or(6));
            p.push(s.ttl);
            p.extend_from_slice(&a.octets());
            p.extend_from_slice(&b.octets());
            for (i, code) in s.v6_ext.iter().enumerate() {
                let next = s.v6_ext.get(i + 1).copied().unwrap_or(6);
                if *code == 43 {
                    // routing header, type 0 numbering aside: no segments left
                    p.extend_from_slice(&[next, 0, 4, 0, 0, 0, 0, 0]);
                } else {
                    // hop-by-hop / destination options: one PadN option filling the header
                    p.extend_from_slice(&[next, 0, 1, 4, 0, 0, 0, 0]);
                }
            }
            p.extend_from_slice(&tcp);
            p
        }
        _ => panic!("mixed address families in one segment"),
    }
}

pub fn frame(s: &Seg, framing: Framing) -> Vec<u8> {
    let ip = ip_bytes(s);
    let mut f = wrap(&ip, s.src.is_v4(), framing);
    if framing == Framing::Ethernet && s.eth.len() == 12 {
        f[..12].copy_from_slice(&s.eth);
    }
    if matches!(framing, Framing::Ethernet | Framing::Vlan { .. }) {
        match s.trailer {
            0 => {}
            1 => {
                while f.len() < 60 {
                    f.push(0);
                }
            }
            n => {
                for k in 0..(n - 1) {
                    f.push(0xa5 ^ k.wrapping_mul(37));
                }
            }
        }
    }
    f
}

/// Ethernet addresses a simulated NIC may have: mostly ordinary, sometimes chosen to look like
/// something else to a framing heuristic (first bytes 1e 00 = NULL-loopback signature, with an IP
/// version nibble where the IP header would start; bytes that spell an EtherType).
pub fn mac(r: &mut crate::rng::Rng) -> [u8; 6] {
    match r.below(8) {
        0 => [0x1e, 0x00, r.u8(), r.u8(), (*r.pick(&[0x40u8, 0x60, 0x45])) | (r.u8() & 0x0f), r.u8()],
        1 => [0x02, r.u8(), 0x08, 0x00, 0x45, r.u8()],
        _ => [0x02 | (r.u8() & 0xfc), r.u8(), r.u8(), r.u8(), r.u8(), r.u8()],
    }
}

pub fn wrap(ip: &[u8], v4: bool, framing: Framing) -> Vec<u8> {
    match framing {
        Framing::RawIp => ip.to_vec(),
        Framing::Ethernet => {
            let mut f = Vec::with_capacity(14 + ip.len());
            f.extend_from_slice(&[0x02, 0, 0, 0, 0, 0x01, 0x02, 0, 0, 0, 0, 0x02]);
            f.extend_from_slice(if v4 { &[0x08, 0x00] } else { &[0x86, 0xDD] });
            f.extend_from_slice(ip);
            f
        }
        Framing::Null1e => {
            let mut f = vec![0x1e, 0, 0, 0];
            f.extend_from_slice(ip);
            f
        }
        Framing::NullAf => {
            let fam: u32 = if v4 { 2 } else { 30 };
            let mut f = fam.to_ne_bytes().to_vec();
            f.extend_from_slice(ip);
            f
        }
        Framing::Vlan { tpid, tci } => {
            let mut f = Vec::with_capacity(18 + ip.len());
            f.extend_from_slice(&[0x02, 0, 0, 0, 0, 0x01, 0x02, 0, 0, 0, 0, 0x02]);
            f.extend_from_slice(&tpid.to_be_bytes());
            f.extend_from_slice(&tci.to_be_bytes());
            f.extend_from_slice(if v4 { &[0x08, 0x00] } else { &[0x86, 0xDD] });
            f.extend_from_slice(ip);
            f
        }
        Framing::Sll { pkttype } => {
            let mut f = vec![0, pkttype, 0, 1, 0, 6, 0x02, 0, 0, 0, 0, 0x01, 0, 0];
            f.extend_from_slice(if v4 { &[0x08, 0x00] } else { &[0x86, 0xDD] });
            f.extend_from_slice(ip);
            f
        }
        Framing::NullFamily { fam, big_endian } => {
            let mut f = if big_endian { (fam as u32).to_be_bytes().to_vec() } else { (fam as u32).to_le_bytes().to_vec() };
            f.extend_from_slice(ip);
            f
        }
    }
}

/// where the IP header starts in a frame built with this framing (known, not guessed from the bytes)
pub fn ip_offset_of(framing: Framing) -> usize {
    match framing {
        Framing::RawIp => 0,
        Framing::Ethernet => 14,
        Framing::Vlan { .. } => 18,
        Framing::Sll { .. } => 16,
        Framing::Null1e | Framing::NullAf | Framing::NullFamily { .. } => 4,
    }
}

pub fn hex(b: &[u8]) -> String {
    let mut s = String::with_capacity(b.len() * 2);
    for x in b {
        s.push_str(&format!("{:02x}", x));
    }
    s
}

pub fn unhex(s: &str) -> Vec<u8> {
    let b = s.as_bytes();
    let mut v = Vec::with_capacity(b.len() / 2);
    let mut i = 0;
    while i + 1 < b.len() {
        let h = (b[i] as char).to_digit(16).unwrap_or(0) as u8;
        let l = (b[i + 1] as char).to_digit(16).unwrap_or(0) as u8;
        v.push(h << 4 | l);
        i += 2;
    }
    v
}

/// serde helper: Vec<u8> as hex string (keeps replay files readable)
pub mod hexser {
    use serde::{Deserialize, Deserializer, Serializer};
    pub fn serialize<S: Serializer>(v: &Vec<u8>, s: S) -> Result<S::Ok, S::Error> {
        s.serialize_str(&super::hex(v))
    }
    pub fn deserialize<'de, D: Deserializer<'de>>(d: D) -> Result<Vec<u8>, D::Error> {
        let s = String::deserialize(d)?;
        Ok(super::unhex(&s))
    }
}
