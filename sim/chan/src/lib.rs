//! `crossbeam_channel` as the worker pools see it in the shadow build.
//!
//! Without `--cfg huginn_net_verif_sched` this is the real crate, re-exported.
//! With it, it is a small model of exactly the surface the pools use — `bounded(cap)`
//! (cap 0 = rendezvous), `Sender::{try_send,send,len,is_empty,clone}`,
//! `Receiver::{recv,recv_timeout,try_recv,len}`, the error enums, and disconnect-on-last-drop with
//! drain-then-disconnect — built on shuttle's Mutex/Condvar so that every operation is a
//! scheduling point the simulator owns.
//!
//! Timeouts in abstract time: `recv_timeout` on an *empty* queue may return `Timeout` when the
//! scheduler's coin says so (a timer firing on an empty queue is always a legal behaviour), never
//! on a non-empty queue.  Each receiver has a budget of spontaneous timeouts so runs stay bounded;
//! once it is used up the receiver blocks until a message or a disconnect arrives.

#[cfg(not(huginn_net_verif_sched))]
pub use cb::*;

#[cfg(huginn_net_verif_sched)]
pub use model::*;

#[cfg(huginn_net_verif_sched)]
mod model {
    use shuttle::sync::{Condvar, Mutex};
    use std::collections::VecDeque;
    use std::fmt;
    use std::sync::Arc;
    use std::time::Duration;

    /// Probability (out of 256) that an empty-queue wait ends in a spontaneous timeout.
    const TIMEOUT_COIN: u8 = 64;
    /// Spontaneous timeouts one receiver handle may take over its lifetime.
    const TIMEOUT_BUDGET: u32 = 6;

    thread_local! {
        /// event log hash + counters of the model channel for the current OS thread (= current
        /// shuttle execution); read by poolsim to measure distinct interleavings and probes.
        static EVLOG: std::cell::RefCell<EvLog> = std::cell::RefCell::new(EvLog::default());
    }

    #[derive(Default, Clone, Debug)]
    pub struct EvLog {
        pub hash: u64,
        pub events: u64,
        pub sends_ok: u64,
        pub sends_full: u64,
        pub sends_disconnected: u64,
        pub recvs: u64,
        pub timeouts_empty: u64,
        pub try_recv_empty: u64,
        pub disconnects_seen: u64,
    }

    fn ev(kind: u8, chan: u64, f: impl FnOnce(&mut EvLog)) {
        EVLOG.with(|e| {
            let mut e = e.borrow_mut();
            e.events += 1;
            let mut h = e.hash ^ (((kind as u64) << 56) | (chan & 0x00ff_ffff_ffff_ffff));
            h = h.wrapping_mul(0x100000001b3).rotate_left(23) ^ 0x9E3779B97F4A7C15;
            e.hash = h;
            f(&mut e);
        });
    }

    pub fn evlog_reset() {
        EVLOG.with(|e| *e.borrow_mut() = EvLog::default());
    }
    pub fn evlog_snapshot() -> EvLog {
        EVLOG.with(|e| e.borrow().clone())
    }

    struct State<T> {
        queue: VecDeque<T>,
        cap: usize,
        senders: usize,
        receivers: usize,
        /// receivers currently blocked in recv/recv_timeout (needed for cap 0 rendezvous)
        waiting: usize,
        id: u64,
    }

    struct Shared<T> {
        st: Mutex<State<T>>,
        cv: Condvar,
    }

    pub struct Sender<T> {
        sh: Arc<Shared<T>>,
    }
    pub struct Receiver<T> {
        sh: Arc<Shared<T>>,
        budget: std::cell::Cell<u32>,
    }

    #[derive(PartialEq, Eq, Clone, Copy)]
    pub enum TrySendError<T> {
        Full(T),
        Disconnected(T),
    }
    impl<T> fmt::Debug for TrySendError<T> {
        fn fmt(&self, f: &mut fmt::Formatter<'_>) -> fmt::Result {
            match self {
                TrySendError::Full(_) => write!(f, "Full(..)"),
                TrySendError::Disconnected(_) => write!(f, "Disconnected(..)"),
            }
        }
    }
    impl<T> fmt::Display for TrySendError<T> {
        fn fmt(&self, f: &mut fmt::Formatter<'_>) -> fmt::Result {
            match self {
                TrySendError::Full(_) => write!(f, "sending on a full channel"),
                TrySendError::Disconnected(_) => write!(f, "sending on a disconnected channel"),
            }
        }
    }
    impl<T> std::error::Error for TrySendError<T> {}
    impl<T> TrySendError<T> {
        pub fn into_inner(self) -> T {
            match self {
                TrySendError::Full(t) | TrySendError::Disconnected(t) => t,
            }
        }
        pub fn is_full(&self) -> bool {
            matches!(self, TrySendError::Full(_))
        }
        pub fn is_disconnected(&self) -> bool {
            matches!(self, TrySendError::Disconnected(_))
        }
    }

    #[derive(PartialEq, Eq, Clone, Copy)]
    pub struct SendError<T>(pub T);
    impl<T> fmt::Debug for SendError<T> {
        fn fmt(&self, f: &mut fmt::Formatter<'_>) -> fmt::Result {
            write!(f, "SendError(..)")
        }
    }
    impl<T> fmt::Display for SendError<T> {
        fn fmt(&self, f: &mut fmt::Formatter<'_>) -> fmt::Result {
            write!(f, "sending on a disconnected channel")
        }
    }
    impl<T> std::error::Error for SendError<T> {}

    #[derive(PartialEq, Eq, Clone, Copy, Debug)]
    pub struct RecvError;
    impl fmt::Display for RecvError {
        fn fmt(&self, f: &mut fmt::Formatter<'_>) -> fmt::Result {
            write!(f, "receiving on an empty and disconnected channel")
        }
    }
    impl std::error::Error for RecvError {}

    #[derive(PartialEq, Eq, Clone, Copy, Debug)]
    pub enum RecvTimeoutError {
        Timeout,
        Disconnected,
    }
    impl fmt::Display for RecvTimeoutError {
        fn fmt(&self, f: &mut fmt::Formatter<'_>) -> fmt::Result {
            match self {
                RecvTimeoutError::Timeout => write!(f, "timed out waiting on receive operation"),
                RecvTimeoutError::Disconnected => write!(f, "channel is empty and disconnected"),
            }
        }
    }
    impl std::error::Error for RecvTimeoutError {}

    #[derive(PartialEq, Eq, Clone, Copy, Debug)]
    pub enum TryRecvError {
        Empty,
        Disconnected,
    }
    impl fmt::Display for TryRecvError {
        fn fmt(&self, f: &mut fmt::Formatter<'_>) -> fmt::Result {
            match self {
                TryRecvError::Empty => write!(f, "receiving on an empty channel"),
                TryRecvError::Disconnected => write!(f, "receiving on an empty and disconnected channel"),
            }
        }
    }
    impl std::error::Error for TryRecvError {}

    static NEXT_ID: std::sync::atomic::AtomicU64 = std::sync::atomic::AtomicU64::new(0);
    thread_local! { static LOCAL_ID: std::cell::Cell<u64> = const { std::cell::Cell::new(0) }; }

    pub fn bounded<T: 'static>(cap: usize) -> (Sender<T>, Receiver<T>) {
        let _ = &NEXT_ID;
        // ids are per OS thread (= per execution) so that event-log hashes are reproducible
        let id = LOCAL_ID.with(|c| {
            let v = c.get();
            c.set(v.wrapping_add(1));
            v
        }) % 4096;
        let sh = Arc::new(Shared {
            st: Mutex::new(State { queue: VecDeque::new(), cap, senders: 1, receivers: 1, waiting: 0, id }),
            cv: Condvar::new(),
        });
        register_waker(&sh);
        (Sender { sh: sh.clone() }, Receiver { sh, budget: std::cell::Cell::new(TIMEOUT_BUDGET) })
    }

    /// let `force_timeouts` wake the receivers of this channel
    fn register_waker<T: 'static>(sh: &Arc<Shared<T>>) {
        let sh = sh.clone();
        WAKERS.with(|w| w.borrow_mut().push(std::rc::Rc::new(move || sh.cv.notify_all()) as std::rc::Rc<dyn Fn()>));
    }

    pub fn reset_ids() {
        LOCAL_ID.with(|c| c.set(0));
        FORCED.with(|c| c.set(0));
        STALL.with(|c| c.set(false));
        WAKERS.with(|w| w.borrow_mut().clear());
    }

    thread_local! {
        /// timeouts the simulator has decided must fire (idle-gap fault): the next receivers that wait on an
        /// empty queue with `recv_timeout` time out at once, one per unit
        static FORCED: std::cell::Cell<u32> = const { std::cell::Cell::new(0) };
        static WAKERS: std::cell::RefCell<Vec<std::rc::Rc<dyn Fn()>>> = const { std::cell::RefCell::new(Vec::new()) };
    }

    thread_local! {
        /// fault "slow worker": called whenever a receiver takes a message out of a queue (the simulator lets
        /// seconds of worker time pass there)
        static ON_RECEIVE: std::cell::RefCell<Option<std::rc::Rc<dyn Fn()>>> = const { std::cell::RefCell::new(None) };
    }

    /// Install (or remove) the hook that runs each time a message is taken out of a queue. Stays in force until
    /// removed; `reset_ids` does not touch it.
    pub fn set_on_receive(f: Option<std::rc::Rc<dyn Fn()>>) {
        ON_RECEIVE.with(|h| *h.borrow_mut() = f);
    }

    fn on_receive() {
        let f = ON_RECEIVE.with(|h| h.borrow().clone());
        if let Some(f) = f {
            f();
        }
    }

    thread_local! {
        /// fault "stalled workers": while set, no receiver takes anything out of any queue
        static STALL: std::cell::Cell<bool> = const { std::cell::Cell::new(false) };
    }

    /// Stall (or release) every receiver of this execution: a stalled receiver neither receives nor times out.
    pub fn stall(on: bool) {
        STALL.with(|c| c.set(on));
        wake_all();
    }

    /// notify every receiver; the list is copied first because a notification is a scheduling point and the thread
    /// that runs next may create a channel
    fn wake_all() {
        let v: Vec<std::rc::Rc<dyn Fn()>> = WAKERS.with(|w| w.borrow().clone());
        for f in v {
            f();
        }
    }

    fn stalled() -> bool {
        STALL.with(|c| c.get())
    }

    /// Simulated passage of idle time: `n` pending `recv_timeout` waits on empty queues time out now.
    pub fn force_timeouts(n: u32) {
        FORCED.with(|c| c.set(c.get() + n));
        wake_all();
    }

    /// Time passes: one receiver that waits with a finite timeout on an empty queue times out (now, or the next one
    /// that comes to wait). Called over and over by the simulation's clock thread, so that a finite timeout always
    /// fires in the end and only a wait without one can last forever.
    pub fn tick() {
        let fire = FORCED.with(|c| {
            if c.get() == 0 {
                c.set(1);
                true
            } else {
                false
            }
        });
        if fire {
            wake_all();
        }
    }

    pub fn unbounded<T: 'static>() -> (Sender<T>, Receiver<T>) {
        bounded(usize::MAX)
    }

    impl<T> Sender<T> {
        pub fn try_send(&self, msg: T) -> Result<(), TrySendError<T>> {
            let mut st = self.sh.st.lock().unwrap();
            if st.receivers == 0 {
                ev(3, st.id, |e| e.sends_disconnected += 1);
                return Err(TrySendError::Disconnected(msg));
            }
            let room = if st.cap == 0 { st.queue.len() < st.waiting } else { st.queue.len() < st.cap };
            if !room {
                ev(2, st.id, |e| e.sends_full += 1);
                return Err(TrySendError::Full(msg));
            }
            st.queue.push_back(msg);
            ev(1, st.id, |e| e.sends_ok += 1);
            drop(st);
            self.sh.cv.notify_all();
            Ok(())
        }

        /// Blocking send (not used by the pools; provided for the harness).
        pub fn send(&self, msg: T) -> Result<(), SendError<T>> {
            let mut st = self.sh.st.lock().unwrap();
            loop {
                if st.receivers == 0 {
                    return Err(SendError(msg));
                }
                let room = if st.cap == 0 { st.queue.len() < st.waiting } else { st.queue.len() < st.cap };
                if room {
                    st.queue.push_back(msg);
                    ev(1, st.id, |e| e.sends_ok += 1);
                    drop(st);
                    self.sh.cv.notify_all();
                    return Ok(());
                }
                st = self.sh.cv.wait(st).unwrap();
            }
        }

        pub fn len(&self) -> usize {
            self.sh.st.lock().unwrap().queue.len()
        }
        pub fn is_empty(&self) -> bool {
            self.len() == 0
        }
        pub fn is_full(&self) -> bool {
            let st = self.sh.st.lock().unwrap();
            st.cap != 0 && st.queue.len() >= st.cap || st.cap == 0
        }
        pub fn capacity(&self) -> Option<usize> {
            let c = self.sh.st.lock().unwrap().cap;
            if c == usize::MAX { None } else { Some(c) }
        }
    }

    impl<T> Clone for Sender<T> {
        fn clone(&self) -> Self {
            self.sh.st.lock().unwrap().senders += 1;
            Sender { sh: self.sh.clone() }
        }
    }
    impl<T> Drop for Sender<T> {
        fn drop(&mut self) {
            let mut st = match self.sh.st.lock() {
                Ok(g) => g,
                Err(p) => p.into_inner(),
            };
            st.senders -= 1;
            let last = st.senders == 0;
            drop(st);
            if last {
                self.sh.cv.notify_all();
            }
        }
    }

    impl<T> Receiver<T> {
        fn coin(&self) -> bool {
            if self.budget.get() == 0 {
                return false;
            }
            use shuttle::rand::Rng;
            let c: u8 = shuttle::rand::thread_rng().gen();
            if c < TIMEOUT_COIN {
                self.budget.set(self.budget.get() - 1);
                true
            } else {
                false
            }
        }

        pub fn recv_timeout(&self, timeout: Duration) -> Result<T, RecvTimeoutError> {
            // a timeout of a century or more is "do not poll": such a wait ends by a message or a disconnect only
            let never = timeout >= Duration::from_secs(100 * 365 * 86_400);
            let mut st = self.sh.st.lock().unwrap();
            while stalled() {
                st = self.sh.cv.wait(st).unwrap();
            }
            st.waiting += 1;
            loop {
                if let Some(m) = st.queue.pop_front() {
                    st.waiting -= 1;
                    ev(4, st.id, |e| e.recvs += 1);
                    on_receive();
                    drop(st);
                    self.sh.cv.notify_all();
                    return Ok(m);
                }
                if st.senders == 0 {
                    st.waiting -= 1;
                    ev(6, st.id, |e| e.disconnects_seen += 1);
                    return Err(RecvTimeoutError::Disconnected);
                }
                // empty queue, senders alive: the timer fires if the simulator says idle time has passed, or may fire
                let forced = !never && FORCED.with(|c| {
                    if c.get() > 0 {
                        c.set(c.get() - 1);
                        true
                    } else {
                        false
                    }
                });
                if forced || (!never && self.coin()) {
                    st.waiting -= 1;
                    ev(5, st.id, |e| e.timeouts_empty += 1);
                    return Err(RecvTimeoutError::Timeout);
                }
                st = self.sh.cv.wait(st).unwrap();
            }
        }

        pub fn recv(&self) -> Result<T, RecvError> {
            let mut st = self.sh.st.lock().unwrap();
            while stalled() {
                st = self.sh.cv.wait(st).unwrap();
            }
            st.waiting += 1;
            loop {
                if let Some(m) = st.queue.pop_front() {
                    st.waiting -= 1;
                    ev(4, st.id, |e| e.recvs += 1);
                    on_receive();
                    drop(st);
                    self.sh.cv.notify_all();
                    return Ok(m);
                }
                if st.senders == 0 {
                    st.waiting -= 1;
                    return Err(RecvError);
                }
                st = self.sh.cv.wait(st).unwrap();
            }
        }

        pub fn try_recv(&self) -> Result<T, TryRecvError> {
            let mut st = self.sh.st.lock().unwrap();
            if stalled() && st.senders > 0 {
                return Err(TryRecvError::Empty);
            }
            if let Some(m) = st.queue.pop_front() {
                ev(4, st.id, |e| e.recvs += 1);
                    on_receive();
                drop(st);
                self.sh.cv.notify_all();
                return Ok(m);
            }
            if st.senders == 0 {
                ev(6, st.id, |e| e.disconnects_seen += 1);
                Err(TryRecvError::Disconnected)
            } else {
                ev(7, st.id, |e| e.try_recv_empty += 1);
                Err(TryRecvError::Empty)
            }
        }

        pub fn len(&self) -> usize {
            self.sh.st.lock().unwrap().queue.len()
        }
        pub fn is_empty(&self) -> bool {
            self.len() == 0
        }
    }

    impl<T> Clone for Receiver<T> {
        fn clone(&self) -> Self {
            self.sh.st.lock().unwrap().receivers += 1;
            Receiver { sh: self.sh.clone(), budget: std::cell::Cell::new(TIMEOUT_BUDGET) }
        }
    }
    impl<T> Drop for Receiver<T> {
        fn drop(&mut self) {
            let mut st = match self.sh.st.lock() {
                Ok(g) => g,
                Err(p) => p.into_inner(),
            };
            st.receivers -= 1;
            let last = st.receivers == 0;
            if last {
                st.queue.clear();
            }
            drop(st);
            if last {
                self.sh.cv.notify_all();
            }
        }
    }
}

/// The model is checked against the real crate: the same single-threaded operation sequences
/// (try_send / try_recv / recv_timeout-on-non-empty / len / is_empty / sender and receiver
/// clone + drop, capacities 1..5) must produce the same outcomes on both. Blocking behaviour and
/// the rendezvous (capacity 0) case involve a second thread and are exercised by poolsim itself.
#[cfg(all(test, huginn_net_verif_sched))]
mod conformance {
    use std::time::Duration;

    #[derive(Debug, PartialEq)]
    enum Out {
        SendOk,
        SendFull,
        SendDisc,
        Recv(u32),
        RecvEmpty,
        RecvDisc,
        Len(usize),
    }

    fn lcg(s: &mut u64) -> u64 {
        *s = s.wrapping_mul(6364136223846793005).wrapping_add(1442695040888963407);
        *s >> 33
    }

    fn drive_real(seed: u64, cap: usize, n: usize) -> Vec<Out> {
        let (tx, rx) = cb::bounded::<u32>(cap);
        let mut txs = vec![tx];
        let mut rxs = vec![rx];
        let mut s = seed;
        let mut out = vec![];
        let mut next = 0u32;
        for _ in 0..n {
            match lcg(&mut s) % 10 {
                0..=3 if !txs.is_empty() => {
                    next += 1;
                    out.push(match txs[0].try_send(next) {
                        Ok(()) => Out::SendOk,
                        Err(cb::TrySendError::Full(_)) => Out::SendFull,
                        Err(cb::TrySendError::Disconnected(_)) => Out::SendDisc,
                    })
                }
                4..=6 if !rxs.is_empty() => out.push(match rxs[0].try_recv() {
                    Ok(v) => Out::Recv(v),
                    Err(cb::TryRecvError::Empty) => Out::RecvEmpty,
                    Err(cb::TryRecvError::Disconnected) => Out::RecvDisc,
                }),
                7 if !txs.is_empty() => out.push(Out::Len(txs[0].len())),
                8 => {
                    // clone or drop a sender
                    if lcg(&mut s) % 2 == 0 && !txs.is_empty() {
                        let c = txs[0].clone();
                        txs.push(c);
                    } else if !txs.is_empty() {
                        txs.pop();
                    }
                }
                9 if !rxs.is_empty() => {
                    // non-blocking use of recv_timeout: only when something is queued or every sender is gone
                    if rxs[0].len() > 0 || txs.is_empty() {
                        out.push(match rxs[0].recv_timeout(Duration::from_millis(1)) {
                            Ok(v) => Out::Recv(v),
                            Err(cb::RecvTimeoutError::Timeout) => Out::RecvEmpty,
                            Err(cb::RecvTimeoutError::Disconnected) => Out::RecvDisc,
                        })
                    }
                }
                _ => {}
            }
        }
        out
    }

    fn drive_model(seed: u64, cap: usize, n: usize) -> Vec<Out> {
        use super::model as m;
        let (tx, rx) = m::bounded::<u32>(cap);
        let mut txs = vec![tx];
        let mut rxs = vec![rx];
        let mut s = seed;
        let mut out = vec![];
        let mut next = 0u32;
        for _ in 0..n {
            match lcg(&mut s) % 10 {
                0..=3 if !txs.is_empty() => {
                    next += 1;
                    out.push(match txs[0].try_send(next) {
                        Ok(()) => Out::SendOk,
                        Err(m::TrySendError::Full(_)) => Out::SendFull,
                        Err(m::TrySendError::Disconnected(_)) => Out::SendDisc,
                    })
                }
                4..=6 if !rxs.is_empty() => out.push(match rxs[0].try_recv() {
                    Ok(v) => Out::Recv(v),
                    Err(m::TryRecvError::Empty) => Out::RecvEmpty,
                    Err(m::TryRecvError::Disconnected) => Out::RecvDisc,
                }),
                7 if !txs.is_empty() => out.push(Out::Len(txs[0].len())),
                8 => {
                    if lcg(&mut s) % 2 == 0 && !txs.is_empty() {
                        let c = txs[0].clone();
                        txs.push(c);
                    } else if !txs.is_empty() {
                        txs.pop();
                    }
                }
                9 if !rxs.is_empty() => {
                    if rxs[0].len() > 0 || txs.is_empty() {
                        out.push(match rxs[0].recv_timeout(Duration::from_millis(1)) {
                            Ok(v) => Out::Recv(v),
                            Err(m::RecvTimeoutError::Timeout) => Out::RecvEmpty,
                            Err(m::RecvTimeoutError::Disconnected) => Out::RecvDisc,
                        })
                    }
                }
                _ => {}
            }
        }
        out
    }

    #[test]
    fn model_channel_matches_crossbeam_on_sequential_histories() {
        for cap in 1..=5usize {
            for seed in 0..400u64 {
                let real = drive_real(seed * 7919 + cap as u64, cap, 120);
                let slot = std::sync::Arc::new(std::sync::Mutex::new(None));
                let s2 = slot.clone();
                shuttle::check_random(
                    move || {
                        *s2.lock().unwrap() = Some(drive_model(seed * 7919 + cap as u64, cap, 120));
                    },
                    1,
                );
                let model = slot.lock().unwrap().take().unwrap();
                assert_eq!(real, model, "cap={} seed={}", cap, seed);
            }
        }
    }
}
