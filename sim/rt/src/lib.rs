//! Runtime seams used by the deterministic simulator in /verif.
//!
//! * `clock`: a per-OS-thread simulated clock.  When armed, every time source the code under
//!   test has (uptime.rs::get_unix_time_ms through hook H1, ttl_cache's expiry through the vendored
//!   crate) reads it; when not armed both fall back to the real clock, so a binary that never arms
//!   the clock behaves exactly as shipped.
//! * `std` (only with `--cfg huginn_net_verif_sched`): a facade that re-exports all of `std` but
//!   replaces `thread`, `sync::{Mutex,Condvar,RwLock,Once,Barrier}`, `sync::atomic` and `sync::mpsc` with
//!   shuttle's scheduler-aware versions.  Hook H2 puts `use huginn_net_verif_rt::std;` at the top of
//!   the pool modules so their existing `std::…` paths resolve here.

pub mod clock {
    use ::std::cell::Cell;
    use ::std::sync::OnceLock;
    use ::std::time::{Duration, Instant, SystemTime, UNIX_EPOCH};

    thread_local! {
        static ARMED: Cell<bool> = const { Cell::new(false) };
        /// simulated monotonic nanoseconds since the start of the run
        static MONO_NS: Cell<u64> = const { Cell::new(0) };
        /// simulated wall clock in unix milliseconds (may jump relative to MONO_NS)
        static UNIX_MS: Cell<u64> = const { Cell::new(0) };
        /// time that passes for `std::time::Instant` readers only (fault "slow worker": seconds go by between two
        /// packets a worker takes from its queue); flow lifetimes and the wall clock are not moved by it
        static WORK_NS: Cell<u64> = const { Cell::new(0) };
        static READS_UNIX: Cell<u64> = const { Cell::new(0) };
        static READS_MONO: Cell<u64> = const { Cell::new(0) };
    }

    static BASE: OnceLock<Instant> = OnceLock::new();

    fn base() -> Instant {
        *BASE.get_or_init(Instant::now)
    }

    /// Start a simulated run on this OS thread.
    pub fn arm(unix_ms: u64) {
        let _ = base();
        ARMED.with(|a| a.set(true));
        MONO_NS.with(|m| m.set(0));
        UNIX_MS.with(|u| u.set(unix_ms));
        WORK_NS.with(|w| w.set(0));
        READS_UNIX.with(|c| c.set(0));
        READS_MONO.with(|c| c.set(0));
    }

    pub fn disarm() {
        ARMED.with(|a| a.set(false));
    }

    pub fn is_armed() -> bool {
        ARMED.with(|a| a.get())
    }

    /// Advance both clocks by `ns` simulated nanoseconds (wall clock in whole ms of the total).
    pub fn advance_ns(ns: u64) {
        let before = MONO_NS.with(|m| m.get());
        let after = before.saturating_add(ns);
        MONO_NS.with(|m| m.set(after));
        let dms = (after / 1_000_000).saturating_sub(before / 1_000_000);
        UNIX_MS.with(|u| u.set(u.get().saturating_add(dms)));
    }

    /// Move both clocks to the absolute simulated time `ns` (never backwards for the monotonic one).
    pub fn advance_to_ns(ns: u64) {
        let now = MONO_NS.with(|m| m.get());
        if ns > now {
            advance_ns(ns - now);
        }
    }

    /// Fault: the wall clock jumps by `delta_ms` (either sign) while the monotonic clock does not.
    pub fn wall_jump_ms(delta_ms: i64) {
        UNIX_MS.with(|u| {
            let v = u.get() as i128 + delta_ms as i128;
            u.set(v.clamp(0, u64::MAX as i128) as u64)
        });
    }

    pub fn work_advance_ns(ns: u64) {
        WORK_NS.with(|w| w.set(w.get().saturating_add(ns)));
    }

    pub fn work_ns() -> u64 {
        WORK_NS.with(|w| w.get())
    }

    pub fn mono_ns() -> u64 {
        MONO_NS.with(|m| m.get())
    }

    /// Wall clock as the code under test sees it (H1).  `None` when no simulation is armed.
    pub fn unix_ms() -> Option<u64> {
        if is_armed() {
            READS_UNIX.with(|c| c.set(c.get() + 1));
            Some(UNIX_MS.with(|u| u.get()))
        } else {
            None
        }
    }

    /// `SystemTime::now()` as the code under test sees it (H1): the hook replaces only the clock read,
    /// so everything the code does with the reading runs in simulation too.
    pub fn system_now() -> SystemTime {
        match unix_ms() {
            Some(ms) => UNIX_EPOCH + Duration::from_millis(ms),
            None => SystemTime::now(),
        }
    }

    pub fn unix_ms_peek() -> u64 {
        if is_armed() {
            UNIX_MS.with(|u| u.get())
        } else {
            SystemTime::now().duration_since(UNIX_EPOCH).map(|d| d.as_millis() as u64).unwrap_or(0)
        }
    }

    /// Monotonic clock as ttl_cache sees it.
    pub fn instant_now() -> Instant {
        if is_armed() {
            READS_MONO.with(|c| c.set(c.get() + 1));
            base() + Duration::from_nanos(MONO_NS.with(|m| m.get()))
        } else {
            Instant::now()
        }
    }

    /// (wall reads, monotonic reads) since `arm` — a probe that the seams are actually used.
    pub fn reads() -> (u64, u64) {
        (READS_UNIX.with(|c| c.get()), READS_MONO.with(|c| c.get()))
    }
}

/// `std::time` with `Instant` read from the simulated monotonic clock: a worker that measures how
/// long it has been idle measures simulated time, which the simulator can move
pub mod simtime {
    pub use ::std::time::{Duration, SystemTime, SystemTimeError, UNIX_EPOCH};
    use ::std::ops::{Add, AddAssign, Sub, SubAssign};

    #[derive(Clone, Copy, PartialEq, Eq, PartialOrd, Ord, Hash, Debug)]
    pub struct Instant(u64);

    impl Instant {
        pub fn now() -> Instant {
            Instant(crate::clock::mono_ns().saturating_add(crate::clock::work_ns()))
        }
        pub fn elapsed(&self) -> Duration {
            Instant::now().saturating_duration_since(*self)
        }
        pub fn duration_since(&self, earlier: Instant) -> Duration {
            self.saturating_duration_since(earlier)
        }
        pub fn saturating_duration_since(&self, earlier: Instant) -> Duration {
            Duration::from_nanos(self.0.saturating_sub(earlier.0))
        }
        pub fn checked_duration_since(&self, earlier: Instant) -> Option<Duration> {
            self.0.checked_sub(earlier.0).map(Duration::from_nanos)
        }
        pub fn checked_add(&self, d: Duration) -> Option<Instant> {
            u64::try_from(d.as_nanos()).ok().and_then(|n| self.0.checked_add(n)).map(Instant)
        }
        pub fn checked_sub(&self, d: Duration) -> Option<Instant> {
            u64::try_from(d.as_nanos()).ok().and_then(|n| self.0.checked_sub(n)).map(Instant)
        }
    }
    impl Add<Duration> for Instant {
        type Output = Instant;
        fn add(self, d: Duration) -> Instant {
            self.checked_add(d).expect("overflow when adding duration to instant")
        }
    }
    impl AddAssign<Duration> for Instant {
        fn add_assign(&mut self, d: Duration) {
            *self = *self + d;
        }
    }
    impl Sub<Duration> for Instant {
        type Output = Instant;
        fn sub(self, d: Duration) -> Instant {
            self.checked_sub(d).expect("overflow when subtracting duration from instant")
        }
    }
    impl SubAssign<Duration> for Instant {
        fn sub_assign(&mut self, d: Duration) {
            *self = *self - d;
        }
    }
    impl Sub<Instant> for Instant {
        type Output = Duration;
        fn sub(self, other: Instant) -> Duration {
            self.saturating_duration_since(other)
        }
    }
}

/// The facade for builds without the controlled scheduler (netsim): everything is std's, except that
/// `std::time::Instant` reads the simulated monotonic clock - so a packet-path module that measures elapsed time
/// (hook H5 makes the name `std` resolve here) measures simulated time, which the simulator moves.
#[cfg(not(huginn_net_verif_sched))]
pub mod std {
    pub use ::std::*;
    pub mod time {
        pub use crate::simtime::*;
    }
}

#[cfg(huginn_net_verif_sched)]
pub mod std {
    pub use ::std::*;

    pub mod time {
        pub use crate::simtime::*;
    }

    pub mod thread {
        pub use ::shuttle::thread::*;
    }

    pub mod sync {
        pub use ::std::sync::*;

        pub use ::shuttle::sync::{
            Barrier, BarrierWaitResult, Condvar, Mutex, MutexGuard, Once, RwLock, RwLockReadGuard,
            RwLockWriteGuard,
        };

        pub mod atomic {
            pub use ::shuttle::sync::atomic::*;
        }

        pub mod mpsc {
            pub use ::shuttle::sync::mpsc::*;
        }
    }
}
