#!/usr/bin/env python3
"""Writes /verif/MANIFEST.json from the table below (single source of truth for what is claimed)."""
import json, os, subprocess
ROOT = os.path.dirname(os.path.abspath(__file__))

HOOK_COMMITS = subprocess.run(["git", "-C", "/repo", "log", "--format=%H %s", "--grep=^verif hook"], stdout=subprocess.PIPE, text=True).stdout.strip().splitlines()

NA = {
 "C02": "pure function of (database, observation): index is a HashMap used for point lookups only, candidates iterate in insertion order; no time, state, schedule or fault for a simulator to act on",
 "C03": "pure function of one packet's header bytes (the only stateful/timed part of the TCP path, uptime, is C19)",
 "C04": "pure function of one ClientHello's bytes (reassembly across segments is C08)",
 "C05": "pure function of one message's bytes: HttpProcessors::parse_* is stateless (the stream/segmentation side is C09)",
 "C06": "pure text <-> value functions (signature round-trip, database load)",
 "C12": "pure functions over (signature, observation) pairs",
 "C13": "composition of pure functions traffic -> observation -> index -> distance; no history or time",
 "C14": "pure boolean function of (configuration, 4-tuple); its use on a packet history is C15",
 "C16": "pure function of the bytes of one fresh connection start (cross-connection HPACK state is C07, segmentation is C09)",
}

CHECKS = {
 "C01": dict(engine="netsim+poolsim", technique="deterministic simulation with fault injection on the tap: valid simulated traffic through truncation, bit flips, IHL/total-length/data-offset/protocol/ethertype/version rewrites, TCP option rewrites, junk, spliced garbage, torn/flipped streams and database text; panic/overflow/hang capture; clean probe compared with a fresh instance under the same simulated clock; the signature database is an input too (24 deterministic rewrites of the bundled text inside its grammar), logging on for 1 run in 4; pool part also through the analyzers' own parallel capture loops and with receive timeouts of 0 / hours / u64::MAX (a wait nothing can end exceeds the step limit: class step-limit)",
   text="Exploration with enumerated sub-spaces: seeded faulty histories into the four analyzers (per-packet path and the real packet loop), the incremental ClientHello reader, the HTTP/2 extractor, HttpProcessors and Database::from_str; systematic scenarios enumerate TCP option (kind,len,position) encodings in SYN and SYN+ACK, every truncation length and single-bit flips in the first 80 bytes of generated frames and of the frames of the four bundled pcaps. The build has overflow checks and debug assertions on, so arithmetic overflow is a panic; a 15 s per-run watchdog reports hangs.",
   note="For the purely input-quantified half ('all byte strings') this is seeded mutation of valid traffic plus the listed enumerations, not a proof. The worker-path half (dispatch hashing, worker liveness) is exercised by the poolsim engine.",
   design="4/C01"),
 "C07": dict(engine="netsim", technique="deterministic simulation: seeded order-preserving interleavings of 2..8 generated connections (TCP handshakes with timestamps, segmented TLS hellos, HTTP/1, HTTP/2 incl. hostile HPACK blocks, garbage, teardowns by FIN/RST, later connections reusing a 4-tuple in the same or in swapped roles, HTTP flow tables of exactly one entry per endpoint pair) and, 1 run in 300, populations of 1000..6000 simultaneously open connections, on one analyzer instance under a simulated clock; per-connection per-packet equivalence with the isolated replay at the same simulated times",
   text="Exploration over merge orders (uniform, round-robin, bursts, hostile-first), endpoint sharing (same client other port, same server many clients, swapped roles), all four analyzers and both drive paths. A clean run shows that on everything explored no connection's results were suppressed, altered or leaked by other traffic.",
   note="Fault-free configuration: capacity >= 2N+4 and timelines inside every TTL, as the statement conditions on the configured capacity; isolated and interleaved runs read the same simulated clock. Differential against the same code run alone.",
   design="4/C07"),
 "C08": dict(engine="netsim+poolsim", technique="deterministic simulation: seeded + enumerated in-order segmentations of TLS record streams, interleaved flows, bare and Fast Open SYNs, cleartext preambles in front of the handshake, further connections on a used 4-tuple, simulated clock; oracle over the recorded history of return values",
   text="Exploration: every single cut position of fixed ClientHellos is enumerated, multi-way partitions, interleavings with other flows and the three delivery paths (reader API, per-packet path, real sequential packet loop) are sampled by seed. A clean run shows exactly-once/at-completion/equal-to-one-segment on everything explored; it is not a proof over all hellos.",
   note="Trusts the generator's knowledge of where the record ends (5 + declared length) and the one-segment delivery on a fresh instance as reference; deliveries are kept inside the 20 s flow TTL because the statement does not quantify over time.",
   design="4/C08"),
 "C09": dict(engine="netsim", technique="deterministic simulation: seeded segmentation x initial sequence number (wrap-biased) x arrival permutation x direction interleaving x retransmission faults (re-segmented, overlapping, repeated byte ranges) x FIN placement of generated HTTP/1.x and HTTP/2 exchanges; history oracle against the in-order one-segment delivery plus generator-known head boundaries",
   text="Exploration: each run delivers one exchange under a sampled tap configuration to the HTTP or unified analyzer (per-packet path or the real sequential loop) and checks: reported iff the reference reports it and equal to it, at most once per direction, attributed to the sender, and never before the head (generator's head length, not the parser's) is contiguously present. Violation classes are separated by cause (wrap, non-contiguous, early, order, segmentation, direction, duplicate-report).",
   note="Reference = same code on the in-order one-segment delivery at ISN 1000/5000 (so an error shared by every delivery is invisible here; C05/C16 territory). Retransmitted duplicates are not injected: the statement quantifies over divisions, origins and orders. Deliveries stay inside the 60 s flow TTL.",
   design="4/C09"),
 "C10": dict(engine="poolsim", technique="deterministic simulation of the real WorkerPools under shuttle's seeded scheduler (random, PCT in thorough) with a model channel standing in for crossbeam; traces of whole connections between arbitrary endpoints (1 in 40: populations of 300..1500 simultaneously open connections filling the configured capacity exactly) x pool configurations x schedules; multiset and per-connection-order comparison with the sequential analyzer",
   text="Exploration over schedules: for each generated (trace, workers 1..16, batch, timeout, queue >= trace) scenario several scheduler seeds x iterations are executed; dispatcher, workers (real worker_loop code incl. batching, timeout and disconnect branches) and collector interleave at every atomic, channel, mutex and spawn operation. Results must equal the sequential analyzer's as a multiset and keep per-connection (TCP: per-sending-host) order; a Dropped outcome with sufficient queues is itself a violation.",
   note="shuttle explores sequentially consistent interleavings only; the model channel's timeouts fire only on an empty queue (abstract time): by coin with a bounded budget per receiver and, since round 9, once per tick of a clock thread that runs in every execution, so a finite timeout always fires in the end while a timeout of a century or more never does; fault 'slow worker' lets 1.5-10 s pass for readers of Instant per dequeued frame. Three scenarios in four drive WorkerPool::dispatch directly and drain by dropping the pool; one in four goes through the analyzer's own parallel packet loop (with_config + init_pool + process_with via H3), including TCP's shutdown-at-end-of-input. The simulated wall clock is frozen during an execution.",
   design="4/C10"),
 "C11": dict(engine="netsim+poolsim", technique="deterministic simulation with a counting allocator as cost oracle: long never-fingerprinting connections (endless HTTP heads, binary after SYN, oversized/unfinished TLS records, application data after a non-hello record, random bytes) in parallel on one analyzer, populations of thousands of short complete connections with distinct recurring values on an analyzer of capacity 1..4, and (1 run in 16) 20000..200000 distinct frames that belong to no connection at all (fragments, other protocols, impossible flags, truncations), simulated clock advancing past the TTLs; allocation and live-heap sampled around every delivered packet; poolsim part: the real worker pools under shuttle with every worker stalled (fault 'stalled node') while queue_size + k frames are handed over, queue sizes 1..100000",
   text="Exploration: per delivered segment the bytes allocated while handling it and the heap bytes live after it are compared with fixed bounds (live <= connections x 512 KiB + 1 MiB; per packet <= 4 MiB + 64 x packet length; median of a connection's last tenth <= 2 x first tenth + 2 MiB). Quick: up to 2000 segments per connection; thorough: up to 100000. Capacities 1/4/64/1000, 1..12 parallel connections, segment sizes 1..1460. Pool part: the depth of every worker queue (stats()) never exceeds the configured queue size while the workers are stalled, exactly the overflow is dropped and counted, and the queues drain afterwards.",
   note="Two oracles rest on measured thread CPU time (crowd scenario: last 250 packets <= 8 x max(first 250, 1 ms), healthy ratio ~1, a degenerate table >= 15; per packet <= 50 ms, healthy figure < 1 ms): they are the only verdicts in the harness that are not pure functions of the seed. Both have an order of magnitude of margin, are confirmed by running the scenario twice more in-process before being reported, and a timing finding that does not reproduce from its replay file in three fresh processes is discarded with a note (counted in the evidence) instead of being reported - a cost that is in the code is there every time, machine noise is not. Constants are fixed in c11.rs and deliberately loose; they were revised (from 128 KiB / 256 KiB, then 2 MiB) after measuring the parsers' constant factor (17x..21x the buffered bytes in temporaries) and per-segment bookkeeping, before the repair was written - see DESIGN. Work is otherwise measured as bytes allocated, a proxy for time that is deterministic.",
   design="4/C11"),
 "C15": dict(engine="netsim+poolsim", technique="deterministic simulation: seeded traces of well-formed and malformed frames (Ethernet/raw/NULL 0x1e/AF loopback framing incl. other platforms' family words in both byte orders, IPv4 IHL 0..15, total-length/protocol/ethertype/version lies, truncation) x generated FilterConfigs; filtered run vs unfiltered run on the admitted sub-trace at the same simulated times",
   text="Exploration: filters are generated from the trace's own endpoints so that each sub-filter matches about half of them; all four analyzers (the unified one through its real packet loop); poolsim part: a real worker pool created with the filter, under shuttle schedules, against the unfiltered sequential analyzer on the admitted sub-trace. Checked per packet: nothing is reported for endpoints the filter rejects (endpoints as the analyzer's own parser assigns them), and every admitted packet yields exactly what the unfiltered analyzer yields on the admitted sub-trace.",
   note="admit(p) is the repository's own FilterConfig::should_process applied to the analyzer's view of the packet (C14, the predicate's truth table, is not claimed). Packets whose endpoints the analyzer does not define (non-TCP, unparseable) are kept in the sub-trace (fail-open, as documented).",
   design="4/C15"),
 "C17": dict(engine="netsim", technique="deterministic simulation: seeded + enumerated chunkings of generated HTTP/2 connection starts (header blocks up to 600 KiB over CONTINUATION frames) through the incremental extractor; history oracle + reference model of the Akamai format computed from the generator's structure",
   text="Exploration: frame sequences (settings incl. unknown ids, WINDOW_UPDATE/PRIORITY before and after SETTINGS, HEADERS with PADDED/PRIORITY/CONTINUATION, with/without preface) are drawn by seed; every single cut of fixed short streams is enumerated, multi-way chunkings sampled. Checked: at most one report, on the chunk completing the first SETTINGS frame, equal to the one-shot result on that prefix, and the one-shot result equal to an independent reference model string and SHA-256 prefix.",
   note="The reference model is 30 lines of harness code over the generator's structure (not over parsed bytes). An empty first SETTINGS frame is treated as unspecified by the statement: only incremental == one-shot is required there.",
   design="4/C17"),
 "C18": dict(engine="poolsim", technique="deterministic simulation of the real WorkerPools under shuttle's seeded scheduler: 1..4 concurrent dispatcher threads, queue sizes 0/1/2/8/64 (forced overflow), a concurrent stats() reader, fault 'result consumer gone' (receiver dropped mid-dispatch), fault 'drop storm' (1 scenario in 160: workers stalled, 2-3 dispatchers x 70000-140000 frames for one worker, counters compared at rest); exactly-once accounting over recorded outcomes, results and counters; plus thread-free affinity checks of the dispatch hash under header rewrites for worker counts 1..64",
   text="Exploration over schedules and configurations: every frame is uniquely identifiable (unique source endpoint), so each Queued outcome must be matched by exactly one result and each Dropped by none; stats() must equal the tallied outcomes under each pool's own meaning of 'dispatched', per-worker drop counters must match queue-full drops, queue sizes must be 0 once everything was consumed, counters read concurrently must be monotone. Affinity: worker index < W and unchanged under rewriting payload, flags, seq/ack, window, TTL, IP id, ToS, DF, options, flow label, framing; HTTP symmetric in direction; TCP equal for equal source address.",
   note="Accounting executions never call shutdown() (the statement says 'before shutdown'). shuttle = sequentially consistent atomics; relaxed-memory effects on the Relaxed counters are out of reach. Rendezvous (queue 0) semantics are the model channel's.",
   design="4/C18"),
 "C19": dict(engine="netsim", technique="deterministic simulation with simulated wall and monotonic clocks (hook H1, clock-redirected ttl_cache), clock-jump faults (judged across the jump while the reference entry is young), seeded + enumerated (rate x boundary gap) timestamp histories; per-packet comparison with an executable model of the statement",
   text="Exploration: both hosts' timestamp clocks (steady at boundary/OS-typical/every-integer rates, out-of-range, jittering, stalled, stepping backward, wrapping), gaps drawn around 25 ms/100 ms/30 s/600 s, interleaved second connection, ports on both sides of the role heuristic, wall-clock jumps. Every timestamped segment is judged against a 60-line model (grid rounding, uptime decomposition, wrap period, role rule, bad-marker). Systematic part: every integer rate 1..1500 (quick: every 7th) x boundary gaps.",
   note="Model assumptions: the rate of a pair is ticks*1000/ms as the analyzer observed them; with fewer than 5 ticks of movement either outcome is accepted; an entry is assumed to live at least 30 s and at most judged within 10 min; after a wall-clock jump endpoints whose reference predates the jump are no longer judged (narrow relaxation). One open known finding (backward movement).",
   design="4/C19"),
 "C20": dict(engine="netsim", technique="deterministic simulation: lockstep differential of HuginnNet (one instance per switch combination) against HuginnNetTcp, HuginnNetHttp and the stateless TLS path on seeded traces (interleaved connections, single-segment ClientHellos, corrupted and spliced frames), fault 'capture source ends and restarts' (an empty run of each analyzer's own packet loop between packets), a scale scenario with 2^20+200 simultaneously open connections once per check, under one simulated clock",
   text="Exploration: per frame and per enabled protocol the unified result's fields are compared (canonical Debug text incl. endpoints, labels, qualities, MTU, uptime, diagnosis, language, JA4) with the protocol analyzer's output whenever every enabled analyzer accepted the frame; disabled protocols must contribute nothing; with matching off every quality must be Disabled and every raw signature equal to the matching-on instance; the constructor's database rule is checked for all 16 combinations. Quick samples 6 combinations per trace, thorough all 16.",
   note="Differential against the protocol analyzers run in the same process at the same simulated times with the same capacity; a defect shared by both sides is invisible here.",
   design="4/C20"),
}

def main():
    checks = []
    for pid in sorted(CHECKS):
        c = CHECKS[pid]
        checks.append({
            "property_id": pid,
            "quick_cmd": f"./check {pid} --tier quick",
            "thorough_cmd": f"./check {pid} --tier thorough",
            "evidence_file": f"/verif/evidence/{pid}.json",
            "replay_cmd_template": f"./check {pid} --replay {{path}}",
            "engine": c["engine"],
            "level_claimed": {"category": "exploration", "text": c["text"], "design_ref": c["design"]},
            "level_note": c["note"],
            "technique": c["technique"],
        })
    props = [json.loads(l)["id"] for l in open(os.path.join(ROOT, "properties.jsonl"))]
    na = []
    for pid in props:
        if pid in CHECKS:
            continue
        reason = NA.get(pid, "check for this property is still under construction in /verif/sim (simulation target per DESIGN.md section 4); not claimed until its check runs clean")
        na.append({"property_id": pid, "reason": reason})
    m = {
        "version": 1,
        "setup_cmd": "./check build",
        "hooks": {
            "guard": "huginn_net_verif (H1 wall-clock seam, H3 packet-source doorways, H5 std::time::Instant of the packet-path modules read from the simulated monotonic clock) and huginn_net_verif_sched (H2 scheduler seam, only ever set together with the first)",
            "enable": "RUSTFLAGS='--cfg huginn_net_verif [--cfg huginn_net_verif_sched]' cargo build in /verif/sim, whose shadow manifests ([lib] path = /repo/<crate>/src/lib.rs) compile /repo's working tree with huginn-net-verif-rt available; /repo's Cargo.toml/Cargo.lock are not used by the checks",
            "baseline_off_cmd": "cd /repo && cargo test --workspace --no-fail-fast --offline",
            "source_commits": [l.split()[0] for l in HOOK_COMMITS],
            "add_only": True,
        },
        "engines": [
            {"name": "netsim", "path": "/verif/sim/vsim (built without cfg huginn_net_verif_sched)", "serves_properties": sorted(p for p,c in CHECKS.items() if "netsim" in c["engine"]), "kind_free_text": "own discrete-event packet-path simulator: simulated clock, seeded endpoints/tap/fault pipeline, real analyzers"},
            {"name": "netsim-plain", "path": "/verif/sim/vsim (as netsim, but the crates compiled as a plain release build: no overflow checks, no debug assertions)", "serves_properties": sorted(p for p,c in CHECKS.items() if "netsim" in c["engine"] and p != "C11"), "kind_free_text": "the same simulator against the build profile deployments run; code inside debug_assert! does not exist there"},
            {"name": "poolsim", "path": "/verif/sim/vsim (built with cfg huginn_net_verif_sched)", "serves_properties": sorted(p for p,c in CHECKS.items() if "poolsim" in c["engine"]), "kind_free_text": "the real WorkerPools under shuttle's seeded scheduler with a model channel"},
        ],
        "checks": checks,
        "not_applicable": na,
        "notes": "All checks: exit 0 held / 1 VIOLATION line / 2 harness error. Known findings: /verif/known_findings.json. Determinism proof: ./check selftest.",
    }
    json.dump(m, open(os.path.join(ROOT, "MANIFEST.json"), "w"), indent=1)
    print("wrote MANIFEST.json:", len(checks), "checks,", len(na), "not applicable/not claimed")

main()
