#!/bin/bash
# usage: seeded_eval.sh <worktree-id e.g. C08a> <crate dir for the demo test e.g. huginn-net-tls> [checks...]
# 1. confirms the change in its scratch worktree (demo fails with it / passes without it, crate tests pass with it)
# 2. applies MUTANT/patch.diff to /repo, runs the given quick checks (default: all), reverts /repo
set -u
ID=$1; CRATE=$2; shift 2
WT=/tmp/mut/$ID
OUT=/verif/seeded/$ID
mkdir -p $OUT
cp $WT/MUTANT/patch.diff $OUT/patch.diff
cp $WT/MUTANT/notes.md $OUT/notes.md 2>/dev/null
DEMO=$(ls $WT/MUTANT/*.rs | head -1)
cp $DEMO $OUT/
export CARGO_NET_OFFLINE=true
cd $WT
echo "== confirm in worktree $WT (change applied)"
cp $DEMO $WT/$CRATE/tests/zz_seeded_demo.rs
( cargo test -p $CRATE --test zz_seeded_demo --offline 2>&1 | grep -E "^test result|panicked|FAILED" | head -5 ) > $OUT/demo_with_change.txt
echo "-- demo WITH change:"; cat $OUT/demo_with_change.txt
( cargo test --workspace --no-fail-fast --offline 2>&1 | grep -E "^test result|FAILED|failed" | awk '/test result/{p+=$4; f+=$6} !/test result/{print} END{print "passed",p,"failed",f}' ) > $OUT/suite_with_change.txt
echo "-- suite WITH change (zz_seeded_demo and the always-failing tls golden test excluded from judgement):"; cat $OUT/suite_with_change.txt
git stash -q -- . ':!MUTANT' ':!'$CRATE/tests/zz_seeded_demo.rs 2>/dev/null || git stash -q
cp $DEMO $WT/$CRATE/tests/zz_seeded_demo.rs
( cargo test -p $CRATE --test zz_seeded_demo --offline 2>&1 | grep -E "^test result|panicked|FAILED" | head -5 ) > $OUT/demo_without_change.txt
echo "-- demo WITHOUT change:"; cat $OUT/demo_without_change.txt
rm -f $WT/$CRATE/tests/zz_seeded_demo.rs
git stash pop -q
echo "== apply to /repo and run checks"
cd /repo && git status --short | grep -v '^??' | head -3
git -C /repo apply $OUT/patch.diff || { echo "patch does not apply to /repo"; exit 2; }
cd /verif
CHECKS=${@:-C01 C07 C08 C09 C10 C11 C15 C17 C18 C19 C20}
: > $OUT/checks.txt
for c in $CHECKS; do
  ./check $c 2>&1 | grep -E "^VIOLATION|occurrences of|^\[$c\] [0-9]|harness" | cut -c1-400 >> $OUT/checks.txt
done
git -C /repo checkout -- .
cat $OUT/checks.txt | cut -c1-300
echo "== /repo restored:"; git -C /repo status --short | grep -v '^??' | head -3
