#!/bin/bash
# usage: seeded_recheck.sh <seeded id> <checks...>  — apply the kept patch to /repo, run the checks, revert
ID=$1; shift
git -C /repo apply /verif/seeded/$ID/patch.diff || exit 2
for c in "$@"; do ./check $c 2>&1 | grep -E "^VIOLATION|occurrences of|^\[$c\] [0-9]|harness" | cut -c1-300; done | tee /verif/seeded/$ID/recheck.txt
git -C /repo checkout -- .
git -C /repo status --short | grep -v '^??' | head -2
