#!/bin/bash
# re-run every kept seeded change against its own property's quick check; prints one line per change
cd /verif
for d in seeded/C*/; do
  id=$(basename $d); prop=${id:0:3}
  git -C /repo apply /verif/seeded/$id/patch.diff 2>/dev/null || { echo "$id: patch does not apply"; continue; }
  out=$(./check $prop 2>&1); rc=$?
  git -C /repo checkout -- .
  n=$(echo "$out" | grep -c "^VIOLATION property=$prop")
  if [ $n -eq 0 ] && [ $rc -ge 2 ]; then echo "$id: HARNESS ERROR (exit $rc: does the patch still compile on the current tree?)"; continue; fi
  echo "$id: $( [ $n -gt 0 ] && echo caught || echo MISSED ) ($n violation classes)"
done
